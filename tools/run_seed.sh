#!/bin/bash
# usage: run_seed.sh <seed dir> <property id>   -- applies the seeded change to /repo, runs the check, reverts
export VERIF_EVIDENCE_DIR=$(mktemp -d); trap 'rm -rf "$VERIF_EVIDENCE_DIR"' EXIT
seed=$(realpath "$1"); prop=$2
cd /repo && [ -z "$(git status --porcelain)" ] || { echo "REFUSING: /repo has uncommitted changes (commit the hooks first)"; exit 3; }
git apply "$seed/patch.diff" || { echo "cannot apply"; exit 3; }
cd /verif && ./check $prop quick > /tmp/runseed.out 2>&1; rc=$?
git -C /repo apply -R "$seed/patch.diff" || git -C /repo checkout -- .
grep -E "VIOLATION|ENGINE|KNOWN|obligations discharged" /tmp/runseed.out | cut -c1-260 | head -6
echo "exit=$rc"
