#!/usr/bin/env python3
# Keeps MANIFEST.hooks.source_commits equal to the list of hook commits in /repo: every commit after
# the pinned snapshot whose subject does not start with "fix:" (those are defect repairs, listed in notes).
import json, subprocess
base = subprocess.run(['git','-C','/repo','log','--format=%h %s','--reverse'],capture_output=True,text=True).stdout.splitlines()
hooks=[l.split()[0] for l in base if not l.split(' ',1)[1].startswith('fix:') and l.split(' ',1)[1]!='snapshot']
p='/verif/MANIFEST.json'; m=json.load(open(p))
m['hooks']['source_commits']=hooks
json.dump(m,open(p,'w'),indent=1)
print(len(hooks),'hook commits')
