#!/bin/bash
# usage: collect_seeds.sh <worktree> <Cnn> : confirm every <worktree>/seeded/mN and copy confirmed ones to /verif/seeded/<Cnn>-mN
wt=$1; id=$2
for d in $wt/seeded/*/; do
  n=$(basename $d)
  name=$n; case $n in m*) name=$id-$n;; esac
  pkg=$(python3 -c "import json;print(json.load(open('$d/meta.json')).get('pkg','internal/multiplex'))")
  t=$(grep -ohE "^func (Test[A-Za-z0-9_]+)" $d/demo_test.go | head -1 | sed 's/func //')
  out=$(/verif/tools/confirm_seed.sh $d $pkg $t 2>&1 | tail -3)
  echo "$name pkg=$pkg test=$t :: $(echo "$out" | tr '\n' ' ')"
  if echo "$out" | grep -q "RESULT confirmed"; then mkdir -p /verif/seeded/$name; cp $d/patch.diff $d/demo_test.go $d/meta.json /verif/seeded/$name/; fi
done
