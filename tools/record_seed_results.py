#!/usr/bin/env python3
# usage: record_seed_results.py <file with lines "<seed id> <first failed obligation | MISSED>">
# Writes the outcome of tools/run_seeds.sh runs into the seeds' meta.json (detected_by) and appends the
# rows to seeded/RESULTS.tsv (which a full tools/selftest.sh run rewrites from scratch).
import json, os, sys
rows = [l.split(None, 1) for l in open(sys.argv[1]) if l.strip()]
tsv = '/verif/seeded/RESULTS.tsv'
have = {l.split('\t')[0] for l in open(tsv)} if os.path.exists(tsv) else set()
out = open(tsv, 'a')
for sid, ob in rows:
    ob = ob.strip()
    d = '/verif/seeded/' + sid
    if not os.path.isdir(d):
        continue
    prop = sid.split('-')[0]
    m = json.load(open(d + '/meta.json'))
    if ob == 'MISSED':
        m['detected_by'] = {'check': './check %s quick' % prop, 'verdict': 'not detected (out of the machinery\'s reach, see DESIGN.md 10.2)', 'failed_obligations': []}
        verdict = 'MISSED'
    else:
        m['detected_by'] = {'check': './check %s quick' % prop, 'verdict': 'detected', 'failed_obligations': [ob]}
        verdict = 'detected'
    json.dump(m, open(d + '/meta.json', 'w'), indent=1)
    if sid not in have:
        out.write('%s\t%s\t%s\t%s\n' % (sid, prop, verdict, '' if ob == 'MISSED' else ob))
out.close()
