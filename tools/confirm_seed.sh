#!/bin/bash
# usage: confirm_seed.sh <seed dir with patch.diff demo_test.go meta.json> <pkgdir e.g. internal/multiplex> <TestName>
# Confirms in a scratch worktree of /repo HEAD: (1) patch applies and the full suite still passes (modulo the
# known sandbox DNS failures), (2) demo fails with the patch, (3) demo passes without it.
set -u
export GOFLAGS=-mod=mod GOPROXY=off
seed=$(realpath "$1"); pkg=$2; tname=$3
wt=$(mktemp -d /tmp/seedwt.XXXXXX)
git -C /repo worktree add -q --detach "$wt" HEAD || exit 3
cleanup(){ git -C /repo worktree remove --force "$wt" 2>/dev/null; rm -rf "$wt"; }
trap cleanup EXIT
cd "$wt"
rm -f internal/*/zz_contracts_verif.go cmd/*/zz_contracts_verif.go 2>/dev/null
cp "$seed/demo_test.go" "$pkg/zz_seed_demo_test.go"
go test -vet=off -count=1 -run "^${tname}\$" "./$pkg/" >/tmp/seed_nopatch.log 2>&1; r0=$?
git apply "$seed/patch.diff" || { echo "RESULT patch-does-not-apply"; exit 3; }
go build ./... >/tmp/seed_build.log 2>&1 || { echo "RESULT does-not-compile"; exit 3; }
go test -vet=off -count=1 -run "^${tname}\$" "./$pkg/" >/tmp/seed_patch.log 2>&1; r1=$?
rm -f "$pkg/zz_seed_demo_test.go"
go test -vet=off -count=1 ./internal/... ./cmd/... >/tmp/seed_suite.log 2>&1
fails=$(grep -E "^--- FAIL|^FAIL" /tmp/seed_suite.log | grep -v "TestParseRedirAddr\|internal/server\b\|internal/test\|^FAIL$" | head -5)
suitefail=$(grep -E "^--- FAIL" /tmp/seed_suite.log | grep -v "TestParseRedirAddr" | wc -l)
echo "demo without patch exit=$r0 (want 0); demo with patch exit=$r1 (want !=0); unexpected suite failures=$suitefail"
[ -n "$fails" ] && echo "$fails"
if [ $r0 -eq 0 ] && [ $r1 -ne 0 ] && [ "$suitefail" -eq 0 ]; then echo "RESULT confirmed"; exit 0; else echo "RESULT not-confirmed"; exit 1; fi
