# Sourced by selftest.sh / benigntest.sh. Creates, outside /repo and /verif,
#   $wt   : a scratch git worktree of /repo's HEAD (patches are applied there, never in /repo)
#   $snap : a snapshot of what a check reads from /verif (contracts/groups.json, known findings and
#           their replay tests, the verifier binary), so that editing /verif or /repo while a corpus
#           runs cannot skew its results; run output and evidence of these runs go there too
# and removes both on exit. Exports GOVC_REPO / GOVC_VERIF / VERIF_EVIDENCE_DIR accordingly.
cd /verif
wt=$(mktemp -d /tmp/corpus-wt-XXXXXX)
snap=$(mktemp -d /tmp/corpus-verif-XXXXXX)
git -C /repo worktree add -q --detach "$wt" HEAD || { echo "cannot create worktree"; exit 3; }
trap 'git -C /repo worktree remove --force "$wt" 2>/dev/null; rm -rf "$wt" "$snap"; git -C /repo worktree prune' EXIT
[ -x bin/govc ] || (cd govc && GOFLAGS=-mod=mod GOPROXY=off go build -o ../bin/govc .)
mkdir -p "$snap/bin" "$snap/evidence" "$snap/out"
cp bin/govc "$snap/bin/govc"
cp -r contracts findings tools known_findings.txt "$snap/"
export GOVC_REPO="$wt" GOVC_VERIF="$snap" VERIF_EVIDENCE_DIR="$snap/evidence" GOFLAGS=-mod=mod GOPROXY=off
govc="$snap/bin/govc"
