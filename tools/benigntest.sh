#!/bin/bash
# Must-pass corpus: behaviour-preserving source changes (renamed locals, reordered independent
# statements, inverted if/else, extracted sub-expressions, added log lines ...) under /verif/benign.
# Each is applied to a scratch worktree of /repo's HEAD; the quick checks of ALL properties whose units
# live in the touched package are run against it; any VIOLATION / ENGINE-ERROR / non-zero exit is a
# false alarm of the machinery. /repo itself is never touched.
# usage: benigntest.sh [ids...]  -> writes /verif/benign/RESULTS.tsv
. /verif/tools/scratch_env.sh
ids="$@"; [ -z "$ids" ] && ids=$(ls /verif/benign | grep -E '^B[0-9]+\.diff$' | sed 's/\.diff//')
out=/verif/benign/RESULTS.tsv; tmp=$(mktemp)
for id in $ids; do
  if ! git -C "$wt" apply --check /verif/benign/$id.diff 2>/dev/null; then echo -e "$id\t-\tpatch-does-not-apply\t-" >> $tmp; echo "$id patch-does-not-apply"; continue; fi
  git -C "$wt" apply /verif/benign/$id.diff
  file=$(grep -m1 '^+++ b/' /verif/benign/$id.diff | sed 's|^+++ b/||')
  pkg=$(basename $(dirname $file))
  fn=$(awk -F'\t' -v id=$id '$1==id{print $3}' /verif/benign/INDEX.txt | sed 's/.*\.//')
  props=$(python3 /verif/tools/benign_props.py "$pkg" "$fn")
  for prop in $props; do
    res=$("$govc" check -prop $prop -tier quick 2>&1); rc=$?
    what=$(echo "$res" | grep -E "VIOLATION|ENGINE-ERROR" | head -2 | cut -c1-260 | tr '\n' '|')
    if [ $rc -eq 0 ] && [ -z "$what" ]; then verdict=quiet; else verdict=FALSE-ALARM; fi
    echo -e "$id\t$prop\t$verdict\t$what" >> $tmp
    echo "$id $prop $verdict $what"
  done
  git -C "$wt" checkout -q -- . ; git -C "$wt" clean -fdq
  rm -rf "$snap/out"/*
done
if [ $# -eq 0 ]; then mv $tmp $out; else cat $tmp; rm -f $tmp; fi
