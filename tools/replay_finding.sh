#!/bin/bash
# usage: replay_finding.sh <test file> <package dir under /repo> <TestName>
# Runs a finding's replay test against the real code (injected with -overlay, /repo is not touched).
# exit 0 = the test FAILS, i.e. the defect still reproduces; exit 1 = test passes (finding is stale)
export GOFLAGS=-mod=mod GOPROXY=off
f=$(realpath "$1"); pkg=$2; t=$3
tmp=$(mktemp -d /tmp/replay.XXXXXX); trap 'rm -rf $tmp' EXIT
echo "{\"Replace\":{\"/repo/$pkg/zz_finding_replay_test.go\":\"$f\"}}" > $tmp/ov.json
cd /repo && go test -overlay $tmp/ov.json -vet=off -count=1 -timeout 60s -run "^$t\$" ./$pkg/ > $tmp/out.txt 2>&1
rc=$?
grep -E "^\s+\S+_test.go:|^--- FAIL|^ok|^FAIL|panic" $tmp/out.txt | head -8
[ $rc -ne 0 ] && exit 0 || exit 1
