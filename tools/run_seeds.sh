#!/bin/bash
# usage: run_seeds.sh <dir with <id>/patch.diff, meta.json> [ids...]
# Like selftest.sh, for a directory of candidate seeds that are not (yet) part of /verif/seeded: applies
# each to a scratch worktree, runs the quick check of its property, prints the verdict.
dir=$(realpath "$1"); shift
. /verif/tools/scratch_env.sh
ids="$@"; [ -z "$ids" ] && ids=$(ls "$dir" | grep -E '^C[0-9]+-')
for id in $ids; do
  prop=${id%%-*}
  if ! git -C "$wt" apply --check "$dir/$id/patch.diff" 2>/dev/null; then echo "$id patch-does-not-apply"; continue; fi
  git -C "$wt" apply "$dir/$id/patch.diff"
  s=$(date +%s)
  res=$("$govc" check -prop $prop -tier quick 2>&1); rc=$?
  git -C "$wt" checkout -q -- . ; git -C "$wt" clean -fdq
  ob=$(echo "$res" | grep -o "obligation=[^ ]*" | head -3 | sed 's/obligation=//' | tr '\n' ',' | sed 's/,$//')
  if [ $rc -ne 0 ] && echo "$res" | grep -q "VIOLATION"; then verdict=detected; elif echo "$res" | grep -q "ENGINE-ERROR"; then verdict="engine-error $(echo "$res" | grep ENGINE-ERROR | head -1 | cut -c1-200)"; else verdict=MISSED; fi
  echo "$id $verdict $(( $(date +%s)-s ))s $ob"
  rm -rf "$snap/out"/*
done
