#!/bin/bash
# Must-fail corpus: applies every seeded change under /verif/seeded to /repo (one at a time), runs the
# check of its property, reverts, and records whether the check reported a violation.
# usage: selftest.sh [seed ids...]   (default: all)   -> writes /verif/seeded/RESULTS.tsv
cd /verif
# runs on deliberately broken trees must not overwrite /verif/evidence (which describes the tree as it is)
export VERIF_EVIDENCE_DIR=$(mktemp -d); trap 'rm -rf "$VERIF_EVIDENCE_DIR"' EXIT
ids="$@"; [ -z "$ids" ] && ids=$(ls seeded | grep -E '^C[0-9]+-m[0-9]+$')
out=/verif/seeded/RESULTS.tsv; tmp=$(mktemp)
for id in $ids; do
  prop=${id%%-*}
  [ -n "$(git -C /repo status --porcelain)" ] && { echo "REFUSING: /repo dirty"; exit 3; }
  if ! git -C /repo apply --check /verif/seeded/$id/patch.diff 2>/dev/null; then echo -e "$id\t$prop\tpatch-does-not-apply\t-" >> $tmp; continue; fi
  git -C /repo apply /verif/seeded/$id/patch.diff
  res=$(./check $prop quick 2>&1); rc=$?
  git -C /repo apply -R /verif/seeded/$id/patch.diff || git -C /repo checkout -- .
  ob=$(echo "$res" | grep -o "obligation=[^ ]*" | head -3 | sed 's/obligation=//' | tr '\n' ',' | sed 's/,$//')
  if [ $rc -ne 0 ] && echo "$res" | grep -q "VIOLATION\|ENGINE-ERROR"; then verdict=detected; else verdict=MISSED; fi
  echo -e "$id\t$prop\t$verdict\t$ob" >> $tmp
  echo "$id $verdict $ob"
done
if [ $# -eq 0 ]; then mv $tmp $out; else cat $tmp; rm -f $tmp; fi
