#!/bin/bash
# Must-fail corpus: applies every seeded change under /verif/seeded to a scratch worktree of /repo's
# HEAD (one at a time), runs the quick check of its property against that worktree, reverts, and
# records whether the check reported a violation. /repo itself is never touched, so this can run while
# contracts are being edited; it uses a private copy of the verifier binary for the same reason.
# usage: selftest.sh [seed ids...]   (default: all)   -> writes /verif/seeded/RESULTS.tsv
cd /verif
# runs on deliberately broken trees must not overwrite /verif/evidence (which describes the tree as it is)
export VERIF_EVIDENCE_DIR=$(mktemp -d)
wt=$(mktemp -d /tmp/selftest-wt-XXXXXX)
git -C /repo worktree add -q --detach "$wt" HEAD || { echo "cannot create worktree"; exit 3; }
trap 'git -C /repo worktree remove --force "$wt" 2>/dev/null; rm -rf "$wt" "$VERIF_EVIDENCE_DIR"; git -C /repo worktree prune' EXIT
[ -x bin/govc ] || (cd govc && GOFLAGS=-mod=mod GOPROXY=off go build -o ../bin/govc .)
cp bin/govc "$VERIF_EVIDENCE_DIR/govc"
export GOVC_REPO="$wt" GOFLAGS=-mod=mod GOPROXY=off
ids="$@"; [ -z "$ids" ] && ids=$(ls seeded | grep -E '^C[0-9]+-m[0-9]+$')
out=/verif/seeded/RESULTS.tsv; tmp=$(mktemp)
for id in $ids; do
  prop=${id%%-*}
  if ! git -C "$wt" apply --check /verif/seeded/$id/patch.diff 2>/dev/null; then echo -e "$id\t$prop\tpatch-does-not-apply\t-" >> $tmp; echo "$id patch-does-not-apply"; continue; fi
  git -C "$wt" apply /verif/seeded/$id/patch.diff
  res=$("$VERIF_EVIDENCE_DIR/govc" check -prop $prop -tier quick 2>&1); rc=$?
  git -C "$wt" checkout -q -- . ; git -C "$wt" clean -fdq
  ob=$(echo "$res" | grep -o "obligation=[^ ]*" | head -3 | sed 's/obligation=//' | tr '\n' ',' | sed 's/,$//')
  if [ $rc -ne 0 ] && echo "$res" | grep -q "VIOLATION\|ENGINE-ERROR"; then verdict=detected; else verdict=MISSED; fi
  echo -e "$id\t$prop\t$verdict\t$ob" >> $tmp
  echo "$id $verdict $ob"
done
if [ $# -eq 0 ]; then mv $tmp $out; else cat $tmp; rm -f $tmp; fi
