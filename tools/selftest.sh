#!/bin/bash
# Must-fail corpus: applies every seeded change under /verif/seeded to a scratch worktree of /repo's
# HEAD (one at a time), runs the quick check of its property against that worktree, reverts, and
# records whether the check reported a violation. /repo itself is never touched and the inputs of the
# checks are snapshotted (tools/scratch_env.sh), so this can run while contracts are being edited.
# usage: selftest.sh [seed ids...]   (default: all)   -> writes /verif/seeded/RESULTS.tsv
. /verif/tools/scratch_env.sh
ids="$@"; [ -z "$ids" ] && ids=$(ls /verif/seeded | grep -E '^C[0-9]+-m[0-9]+$')
out=/verif/seeded/RESULTS.tsv; tmp=$(mktemp)
for id in $ids; do
  prop=${id%%-*}
  if ! git -C "$wt" apply --check /verif/seeded/$id/patch.diff 2>/dev/null; then echo -e "$id\t$prop\tpatch-does-not-apply\t-" >> $tmp; echo "$id patch-does-not-apply"; continue; fi
  git -C "$wt" apply /verif/seeded/$id/patch.diff
  res=$("$govc" check -prop $prop -tier quick 2>&1); rc=$?
  git -C "$wt" checkout -q -- . ; git -C "$wt" clean -fdq
  ob=$(echo "$res" | grep -o "obligation=[^ ]*" | head -3 | sed 's/obligation=//' | tr '\n' ',' | sed 's/,$//')
  if [ $rc -ne 0 ] && echo "$res" | grep -q "VIOLATION"; then verdict=detected; elif echo "$res" | grep -q "ENGINE-ERROR"; then verdict=engine-error; else verdict=MISSED; fi
  echo -e "$id\t$prop\t$verdict\t$ob" >> $tmp
  echo "$id $verdict $ob"
  rm -rf "$snap/out"/*
done
if [ $# -eq 0 ]; then mv $tmp $out; else cat $tmp; rm -f $tmp; fi
