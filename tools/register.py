#!/usr/bin/env python3
# usage: register.py <id> <units comma separated> <note> <assumptions ;; separated> <level text> <level note>
import json,sys
pid,units,note,assum,text,lnote=sys.argv[1:7]
g=json.load(open('/verif/contracts/groups.json'))
g['properties'][pid]={"units":[u for u in units.split(',') if u],"note":note,"assumptions":[a for a in assum.split(';;') if a]}
json.dump(g,open('/verif/contracts/groups.json','w'),indent=1)
m=json.load(open('/verif/MANIFEST.json'))
m['checks']=[c for c in m['checks'] if c['property_id']!=pid]
m['checks'].append({"property_id":pid,"quick_cmd":f"./check {pid} quick","thorough_cmd":f"./check {pid} thorough","evidence_file":f"/verif/evidence/{pid}.json","replay_cmd_template":"cat {path}","engine":"govc",
 "level_claimed":{"category":"proof","text":text,"design_ref":f"DESIGN.md section 5 {pid}"},"level_note":lnote,"technique":"contract-based deductive verification: //@ contracts -> VCs over go/ssa -> z3/cvc5"})
m['not_applicable']=[n for n in m['not_applicable'] if n['property_id']!=pid]
m['checks'].sort(key=lambda c:c['property_id'])
for e in m['engines']:
    if pid not in e['serves_properties']: e['serves_properties'].append(pid); e['serves_properties'].sort()
json.dump(m,open('/verif/MANIFEST.json','w'),indent=1)
print("registered",pid,len(g['properties'][pid]['units']),"units")
