#!/usr/bin/env python3
# usage: benign_props.py <package base name> <function name>
# Prints the properties to re-check after a change inside that function: those with a unit for the
# function itself (verification is modular: a change inside F is seen by F's own unit, and by the units
# of its callers only if F is inlined there - then F has no unit of its own and the fallback applies);
# if no unit names the function, every property with a unit in the touched package.
import json, sys
g = json.load(open('/verif/contracts/groups.json'))
pkg, fn = sys.argv[1], sys.argv[2]
def names(u):
    return u.startswith(pkg + ':') and (u.endswith('.' + fn) or u.endswith(':' + fn) or ('.' + fn + '$') in u or (':' + fn + '$') in u)
hit = sorted(k for k, v in g['properties'].items() if any(names(u) for u in v['units']))
if not hit:
    hit = sorted(k for k, v in g['properties'].items() if any(u.startswith(pkg + ':') for u in v['units']))
print(' '.join(hit))
