package usermanager

// Finding F7 (C18), fixed: a user created through WriteUserInfo with only a subset of the fields made
// every reader of the record panic (index out of range on the missing fields) - including
// AuthenticateUser in the connection goroutine of the server.
// Exit status of this test: FAIL = defect present.

import (
	"os"
	"testing"

	"github.com/cbeuw/Cloak/internal/common"
)

func TestFinding_F7_PartialRecordPanics(t *testing.T) {
	f, err := os.CreateTemp("", "f7-*.db")
	if err != nil {
		t.Skip(err)
	}
	f.Close()
	defer os.Remove(f.Name())
	mgr, err := MakeLocalManager(f.Name(), common.RealWorldState)
	if err != nil {
		t.Fatal(err)
	}
	defer mgr.Close()
	uid := []byte{1, 2, 3, 4, 5, 6, 7, 8, 9, 10, 11, 12, 13, 14, 15, 16}
	one := int32(1)
	if err := mgr.WriteUserInfo(UserInfo{UID: uid, SessionsCap: &one}); err != nil {
		t.Fatal(err)
	}
	defer func() {
		if r := recover(); r != nil {
			t.Fatalf("reader panicked on a record created through the API: %v", r)
		}
	}()
	_, _, _ = mgr.AuthenticateUser(uid)
	_, _ = mgr.GetUserInfo(uid)
	_, _ = mgr.ListAllUsers()
	_, _ = mgr.UploadStatus([]StatusUpdate{{UID: uid, Active: true, NumSession: 1, UpUsage: 1, DownUsage: 1}})
}
