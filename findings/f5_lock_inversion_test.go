package server

// Finding F5 (C17), fixed: updateUsageQueue took activeUsersM and then usageUpdateQueueM while
// commitUpdate takes usageUpdateQueueM and then activeUsersM (read side): two overlapping upload rounds
// (regularQueueUpload starts one goroutine per tick) deadlock, and with them every admission (GetUser
// blocks on activeUsersM for ever).
// Exit status of this test: FAIL = defect present (watchdog fires).

import (
	"testing"
	"time"

	"github.com/cbeuw/Cloak/internal/server/usermanager"
)

type f5Manager struct{ usermanager.UserManager }

func (f5Manager) AuthenticateUser([]byte) (int64, int64, error) { return 1 << 20, 1 << 20, nil }
func (f5Manager) UploadStatus([]usermanager.StatusUpdate) ([]usermanager.StatusResponse, error) {
	return nil, nil
}

func TestFinding_F5_UploadRoundsDeadlock(t *testing.T) {
	panel := &userPanel{
		Manager:          f5Manager{},
		activeUsers:      make(map[[16]byte]*ActiveUser),
		usageUpdateQueue: make(map[[16]byte]*usagePair),
	}
	for i := 0; i < 8; i++ {
		uid := make([]byte, 16)
		uid[0] = byte(i + 1)
		if _, err := panel.GetUser(uid); err != nil {
			t.Fatal(err)
		}
	}
	done := make(chan struct{}, 2)
	const rounds = 20000
	go func() {
		for i := 0; i < rounds; i++ {
			panel.updateUsageQueue()
		}
		done <- struct{}{}
	}()
	go func() {
		for i := 0; i < rounds; i++ {
			panel.updateUsageQueue()
			_ = panel.commitUpdate()
		}
		done <- struct{}{}
	}()
	watchdog := time.After(20 * time.Second)
	for i := 0; i < 2; i++ {
		select {
		case <-done:
		case <-watchdog:
			t.Fatal("updateUsageQueue and commitUpdate are deadlocked (opposite lock order)")
		}
	}
}
