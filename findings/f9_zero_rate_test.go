package server

// Finding F9 (C18/C15), fixed: a stored UpRate or DownRate <= 0 (any integer can be posted through the
// admin API, and fields a new user was not given are zero) made mux.MakeValve panic inside GetUser, i.e.
// in the connection goroutine of the server, when the owner connected.
// Exit status of this test: FAIL = defect present.

import (
	"os"
	"testing"

	"github.com/cbeuw/Cloak/internal/common"
	"github.com/cbeuw/Cloak/internal/server/usermanager"
)

func TestFinding_F9_ZeroRatePanicsOnConnect(t *testing.T) {
	f, err := os.CreateTemp("", "f9-*.db")
	if err != nil {
		t.Skip(err)
	}
	f.Close()
	defer os.Remove(f.Name())
	mgr, err := usermanager.MakeLocalManager(f.Name(), common.RealWorldState)
	if err != nil {
		t.Fatal(err)
	}
	defer mgr.Close()
	uid := []byte{9, 9, 9, 9, 9, 9, 9, 9, 9, 9, 9, 9, 9, 9, 9, 9}
	cap1, zero, credit, exp := int32(1), int64(0), int64(1<<30), int64(1<<40)
	if err := mgr.WriteUserInfo(usermanager.UserInfo{UID: uid, SessionsCap: &cap1, UpRate: &zero, DownRate: &zero, UpCredit: &credit, DownCredit: &credit, ExpiryTime: &exp}); err != nil {
		t.Fatal(err)
	}
	panel := &userPanel{Manager: mgr, activeUsers: make(map[[16]byte]*ActiveUser), usageUpdateQueue: make(map[[16]byte]*usagePair)}
	defer func() {
		if r := recover(); r != nil {
			t.Fatalf("GetUser panicked for a user the API can create: %v", r)
		}
	}()
	_, _ = panel.GetUser(uid)
}
