package server

// Replay for finding F2 (property C08): the periodic clean-up of the replay cache evicts entries that can
// still be replayed. Run with an overlay that only shortens replayCacheAgeLimit (12 h) to 50 ms so that one
// clean-up pass happens during the test; everything else is the real code. The test states the property
// ("an entry registered a second ago survives a clean-up") and FAILS on the defective code.

import (
	"testing"
	"time"

	"github.com/cbeuw/Cloak/internal/common"
)

func TestFinding_F2_CleanerEvictsFreshEntries(t *testing.T) {
	now := time.Unix(1_700_000_000, 0)
	sta := &State{UsedRandom: map[[32]byte]int64{}, WorldState: common.WorldOfTime(now)}
	var r [32]byte
	r[0] = 42
	if sta.registerRandom(r) {
		t.Fatal("fresh random reported as used")
	}
	go sta.UsedRandomCleaner()
	time.Sleep(400 * time.Millisecond) // several clean-up passes with the shortened period
	if !sta.registerRandom(r) {
		t.Errorf("a handshake registered at the current second was evicted by the clean-up and is accepted AGAIN (replay succeeds)")
	}
}
