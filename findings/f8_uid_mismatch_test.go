package usermanager

// Finding F8 (C18), fixed: POST /admin/users/{A} with a body naming UID B was answered 400 "UID mismatch"
// and then written anyway (missing return): a rejected request changed the database.
// Exit status of this test: FAIL = defect present.

import (
	"bytes"
	"encoding/base64"
	"net/http"
	"net/http/httptest"
	"os"
	"testing"

	"github.com/cbeuw/Cloak/internal/common"
)

func TestFinding_F8_RejectedRequestStillWritten(t *testing.T) {
	f, err := os.CreateTemp("", "f8-*.db")
	if err != nil {
		t.Skip(err)
	}
	f.Close()
	defer os.Remove(f.Name())
	mgr, err := MakeLocalManager(f.Name(), common.RealWorldState)
	if err != nil {
		t.Fatal(err)
	}
	defer mgr.Close()
	router := APIRouterOf(mgr)
	uidA := []byte("AAAAAAAAAAAAAAAA")
	uidB := []byte("BBBBBBBBBBBBBBBB")
	body := `{"UID":"` + base64.StdEncoding.EncodeToString(uidB) + `","SessionsCap":1,"UpRate":1,"DownRate":1,"UpCredit":1,"DownCredit":1,"ExpiryTime":1}`
	req := httptest.NewRequest("POST", "/admin/users/"+base64.URLEncoding.EncodeToString(uidA), bytes.NewBufferString(body))
	rr := httptest.NewRecorder()
	router.ServeHTTP(rr, req)
	if rr.Code != http.StatusBadRequest {
		t.Fatalf("expected 400, got %d", rr.Code)
	}
	if _, err := mgr.GetUserInfo(uidB); err == nil {
		t.Fatalf("request was rejected with 400 but user %q was written", uidB)
	}
}
