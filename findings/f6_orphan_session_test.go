package server

// Finding F6 (C17), recorded: dispatchConnection looks a user up with GetUser and attaches the session
// with GetSession in two separately locked steps. If the user's last session closes in between,
// TerminateActiveUser unregisters the ActiveUser record; the session created afterwards lives on a
// record the panel does not know: its usage is never reported and it cannot be terminated.
// The test replays that order sequentially (the middle step stands for the other goroutine).
// Exit status of this test: FAIL = defect present.

import (
	"testing"

	mux "github.com/cbeuw/Cloak/internal/multiplex"
	"github.com/cbeuw/Cloak/internal/server/usermanager"
)

type f6Manager struct{ usermanager.UserManager }

func (f6Manager) AuthenticateUser([]byte) (int64, int64, error) { return 1 << 20, 1 << 20, nil }
func (f6Manager) AuthoriseNewSession([]byte, usermanager.AuthorisationInfo) error {
	return nil
}

func TestFinding_F6_SessionOnUnregisteredUser(t *testing.T) {
	panel := &userPanel{
		Manager:          f6Manager{},
		activeUsers:      make(map[[16]byte]*ActiveUser),
		usageUpdateQueue: make(map[[16]byte]*usagePair),
	}
	uid := []byte{6, 6, 6, 6, 6, 6, 6, 6, 6, 6, 6, 6, 6, 6, 6, 6}
	// connection 2 of the user: step 1 of dispatchConnection
	user, err := panel.GetUser(uid)
	if err != nil {
		t.Fatal(err)
	}
	// meanwhile, in the goroutine serving the user's only other session: serveSession -> CloseSession
	// finds no session left -> TerminateActiveUser
	panel.TerminateActiveUser(user, "no session left")
	// connection 2, step 2 of dispatchConnection
	obfs, _ := mux.MakeObfuscator(0, [32]byte{})
	sesh, _, err := user.GetSession(1, mux.SessionConfig{Obfuscator: obfs})
	if err != nil {
		t.Fatal(err)
	}
	if !sesh.IsClosed() && !panel.isActive(uid) {
		t.Fatalf("a live session is owned by an ActiveUser that is not registered in the panel")
	}
}
