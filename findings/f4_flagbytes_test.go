package multiplex

// Replay for known finding F4 (property C11): header bytes 12 (closing flag) and 13 (extra length) of a
// Cloak v2 frame are authenticated neither by the AEAD nonce (bytes 0..11) nor by the tag. This test
// states the property ("any modification of a sealed message is rejected") and FAILS on the real code.

import (
	"bytes"
	"testing"
)

func TestFinding_F4_FlagBytesUnauthenticated(t *testing.T) {
	var key [32]byte
	for i := range key {
		key[i] = byte(i*7 + 1)
	}
	for _, method := range []byte{EncryptionMethodAES256GCM, EncryptionMethodAES128GCM, EncryptionMethodChaha20Poly1305} {
		o, err := MakeObfuscator(method, key)
		if err != nil {
			t.Fatal(err)
		}
		f := &Frame{StreamID: 7, Seq: 9, Closing: closingNothing, Payload: []byte("payload bytes of a data frame")}
		buf := make([]byte, 512)
		n, err := o.obfuscate(f, buf, 0)
		if err != nil {
			t.Fatal(err)
		}
		for _, pos := range []int{12, 13} {
			for bit := uint(0); bit < 8; bit++ {
				m := append([]byte{}, buf[:n]...)
				m[pos] ^= 1 << bit
				var g Frame
				if err := o.deobfuscate(&g, m); err == nil {
					t.Errorf("method %d: message with bit %d of header byte %d flipped was ACCEPTED (closing %d->%d, payload equal: %v)",
						method, bit, pos, f.Closing, g.Closing, bytes.Equal(g.Payload, f.Payload))
				}
			}
		}
	}
}
