package multiplex

// Finding F1 (C01), fixed: switchboard.addConn published the new connection count before it stored the
// connection. A concurrent send could draw the id that was not stored yet, got errBrokenSwitchboard,
// and Stream.obfuscateAndSend then tore down the whole (healthy) session.
// The test adds connections while another goroutine keeps picking one; picking must never fail while
// the switchboard is not broken and has at least one connection.
// Exit status of this test: FAIL = defect present.

import (
	"net"
	"sync/atomic"
	"testing"
	"time"
)

func TestFinding_F1_AddConnPublishesCountFirst(t *testing.T) {
	deadline := time.Now().Add(20 * time.Second)
	for round := 0; time.Now().Before(deadline); round++ {
		sesh := MakeSession(0, SessionConfig{Obfuscator: Obfuscator{}})
		sb := sesh.sb
		first, peer := net.Pipe()
		_ = peer
		sb.conns.Store(uint32(0), first)
		atomic.StoreUint32(&sb.connsCount, 1)
		var failed atomic.Bool
		stop := make(chan struct{})
		done := make(chan struct{})
		go func() {
			defer close(done)
			for {
				select {
				case <-stop:
					return
				default:
				}
				if _, err := sb.pickRandConn(); err != nil {
					failed.Store(true)
					return
				}
			}
		}()
		for i := 0; i < 300 && !failed.Load(); i++ {
			c, p := net.Pipe()
			_ = p
			sb.addConn(c)
		}
		close(stop)
		<-done
		if failed.Load() {
			t.Fatalf("round %d: pickRandConn failed on a healthy switchboard while a connection was being added", round)
		}
	}
}
