package server

// Replay for known finding F3 (property C08): the replay cache is keyed by the 32 raw bytes that carry the
// client's ephemeral X25519 public key, but X25519 ignores the top bit of the last byte (RFC 7748). Flipping
// that bit yields a first packet with the SAME sealed identity block and the SAME shared secret / AEAD nonce
// that is NOT recognised as a replay. The test states the property and FAILS on the real code.

import (
	"crypto/rand"
	"encoding/base64"
	"encoding/binary"
	"testing"
	"time"

	"github.com/cbeuw/Cloak/internal/common"
	"github.com/cbeuw/Cloak/internal/ecdh"
)

func TestFinding_F3_ReplayWithFlippedTopBit(t *testing.T) {
	now := time.Unix(1_700_000_000, 0)
	serverPv, serverPub, _ := ecdh.GenerateKey(rand.Reader)
	ephPv, ephPub, _ := ecdh.GenerateKey(rand.Reader)
	shared, _ := ecdh.GenerateSharedSecret(ephPv, serverPub)
	randPub := ecdh.Marshal(ephPub)
	plaintext := make([]byte, 48)
	copy(plaintext, []byte("0123456789abcdef"))
	copy(plaintext[16:28], "shadowsocks")
	plaintext[28] = 1
	binary.BigEndian.PutUint64(plaintext[29:37], uint64(now.Unix()))
	binary.BigEndian.PutUint32(plaintext[37:41], 7)
	ct, err := common.AESGCMEncrypt(randPub[:12], shared, plaintext)
	if err != nil {
		t.Fatal(err)
	}
	packet := func(pub []byte) []byte {
		hidden := base64.StdEncoding.EncodeToString(append(append([]byte{}, pub...), ct...))
		return []byte("GET / HTTP/1.1\r\nHost: x\r\nUpgrade: websocket\r\nhidden: " + hidden + "\r\n\r\n")
	}
	sta := &State{StaticPv: serverPv, UsedRandom: map[[32]byte]int64{}, WorldState: common.WorldOfTime(now)}
	if _, _, err := AuthFirstPacket(packet(randPub), WebSocket{}, sta); err != nil {
		t.Fatalf("genuine first packet rejected: %v", err)
	}
	if _, _, err := AuthFirstPacket(packet(randPub), WebSocket{}, sta); err == nil {
		t.Fatalf("verbatim replay accepted")
	}
	altered := append([]byte{}, randPub...)
	altered[31] ^= 0x80
	if info, _, err := AuthFirstPacket(packet(altered), WebSocket{}, sta); err == nil {
		t.Errorf("copy with the top bit of the ephemeral key flipped (same sealed identity block) was ACCEPTED as a fresh handshake: session id %d", info.SessionId)
	}
}
