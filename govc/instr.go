package main

import (
	"fmt"
	"go/constant"
	"go/token"
	"go/types"
	"math/big"
	"strings"

	"golang.org/x/tools/go/ssa"
)

func (e *Exec) fresh(st *State, prefix string, t types.Type) Val {
	if tup, ok := t.(*types.Tuple); ok {
		v := Val{Typ: t}
		for i := 0; i < tup.Len(); i++ {
			v.Tuple = append(v.Tuple, e.fresh(st, fmt.Sprintf("%s.%d", prefix, i), tup.At(i).Type()))
		}
		return v
	}
	n := e.sc.freshConst(prefix, e.sc.sortOf(t))
	e.sc.assume(st.reach, e.sc.rangeFact(n, t))
	e.sc.assume(st.reach, e.allocFact(st, n, t))
	return Val{T: n, Typ: t}
}

func (e *Exec) constVal(c *ssa.Const) Val {
	t := c.Type()
	if c.Value == nil {
		return Val{T: e.sc.zeroOf(t), Typ: t}
	}
	switch c.Value.Kind() {
	case constant.Bool:
		if constant.BoolVal(c.Value) {
			return Val{T: "true", Typ: t}
		}
		return Val{T: "false", Typ: t}
	case constant.String:
		return Val{T: e.sc.strLit(constant.StringVal(c.Value)), Typ: t}
	case constant.Int:
		bi, _ := new(big.Int).SetString(c.Value.ExactString(), 10)
		if b, ok := t.Underlying().(*types.Basic); ok && b.Info()&types.IsFloat != 0 {
			return Val{T: smtInt(bi) + ".0", Typ: t}
		}
		return Val{T: smtInt(bi), Typ: t}
	case constant.Float:
		f, _ := constant.Float64Val(c.Value)
		if b, ok := t.Underlying().(*types.Basic); ok && b.Info()&types.IsInteger != 0 {
			return Val{T: fmt.Sprintf("%d", int64(f)), Typ: t}
		}
		s := fmt.Sprintf("%f", f)
		if strings.HasPrefix(s, "-") {
			s = "(- " + s[1:] + ")"
		}
		return Val{T: s, Typ: t}
	}
	return Val{T: e.sc.zeroOf(t), Typ: t}
}

func isErrorType(t types.Type) bool {
	return types.Identical(t, types.Universe.Lookup("error").Type())
}

func (e *Exec) globalVal(g *ssa.Global) Val {
	t := g.Type().(*types.Pointer).Elem()
	if e.isModelStruct(t) {
		n := e.sc.declGlobalConst("gref_"+sanitize(g.Pkg.Pkg.Name()+"."+g.Name()), "Int")
		e.sc.axiom("gref:"+n, "(< "+n+" 0)")
		return Val{T: n, Typ: g.Type(), NonNil: true}
	}
	return Val{T: "0", Typ: g.Type(), NonNil: true, Loc: &Loc{Kind: LGlobal, Map: e.globalName(g), Typ: t}}
}

// immutableGlobal returns a constant term for package-level values that are treated as never reassigned.
func (e *Exec) immutableGlobal(g *ssa.Global) (string, bool) {
	t := g.Type().(*types.Pointer).Elem()
	if isErrorType(t) {
		n := e.sc.declGlobalConst("gerr_"+sanitize(g.Pkg.Pkg.Name()+"."+g.Name()), "Iface")
		id := e.sc.typeTag(types.NewPointer(types.NewTuple(types.NewVar(0, nil, n, types.Typ[types.Int]))))
		e.sc.axiom("gerr:"+n, fmt.Sprintf("(and (= (i_val %s) (- 0 %s 1000000)) (not (= (i_typ %s) 0)))", n, id, n))
		e.sc.used["package-level error variables (io.EOF, Err*) are never reassigned and pairwise distinct"] = true
		return n, true
	}
	if _, ok := t.Underlying().(*types.Pointer); ok && g.Pkg != nil && e.sc.isRepoPkg(g.Pkg.Pkg) {
		// e.g. UNLIMITED_VALVE
		n := e.sc.declGlobalConst("gptr_"+sanitize(g.Pkg.Pkg.Name()+"."+g.Name()), "Int")
		e.sc.axiom("gptr:"+n, "(< "+n+" 0)")
		e.sc.used["package-level pointer variables of the repository are never reassigned"] = true
		return n, true
	}
	return "", false
}

func (e *Exec) val(fr *Frame, st *State, v ssa.Value) Val {
	switch x := v.(type) {
	case *ssa.Const:
		return e.constVal(x)
	case *ssa.Global:
		return e.globalVal(x)
	case *ssa.Function:
		return Val{T: "0", Typ: x.Type(), Fn: x}
	case *ssa.Builtin:
		return Val{T: "0", Typ: x.Type()}
	case *ssa.FreeVar:
		if fv, ok := fr.freeVars[x]; ok {
			return fv
		}
		// closure verified stand-alone: free variable is an arbitrary box
		r := e.fresh(st, "fv."+x.Name(), x.Type())
		fr.freeVars[x] = r
		return r
	}
	if r, ok := fr.regs[v]; ok {
		return r
	}
	e.errorf("%s: use of undefined value %s (%T)", fr.fn.Name(), v.Name(), v)
	r := e.fresh(st, "undef", v.Type())
	fr.regs[v] = r
	return r
}

func (e *Exec) setReg(fr *Frame, st *State, v ssa.Value, val Val) {
	val.Typ = v.Type()
	if val.Loc == nil && val.Tuple == nil && val.Fn == nil && val.T != "" && len(val.T) > 24 {
		n := e.sc.freshName(fmt.Sprintf("f%d.%s", fr.id, v.Name()))
		e.sc.define(n, e.sc.sortOf(v.Type()), val.T)
		val.T = n
	}
	fr.regs[v] = val
}

// safety emits a safety obligation, or a panic edge in recover-protected functions.
func (e *Exec) safety(fr *Frame, st *State, cond string, kind, msg string, pos token.Pos) {
	if cond == "true" {
		return
	}
	if e.protected(fr, st) {
		ps := st.clone()
		ps.reach = and(st.reach, not(cond))
		fr.panics = append(fr.panics, ps)
		n := e.sc.freshName("ok")
		e.sc.define(n, "Bool", and(st.reach, cond))
		st.reach = n
		return
	}
	if fr.fc != nil && fr.fc.Flags["nosafety"] != "" {
		e.sc.assume(st.reach, cond)
		return
	}
	e.sc.oblig(st.reach, cond, e.obName(kind), "safety", msg, e.pos(pos))
	e.sc.assume(st.reach, cond)
}

func (e *Exec) nilCheck(fr *Frame, st *State, p Val, pos token.Pos) {
	if p.NonNil || fr.blockNN[p.T] {
		return
	}
	fr.blockNN[p.T] = true
	e.safety(fr, st, "(not (= "+p.T+" 0))", "nil-deref", "nil pointer dereference", pos)
}

func pow2(k uint) *big.Int { return new(big.Int).Lsh(big.NewInt(1), k) }

func constInt(t string) (*big.Int, bool) {
	s := t
	neg := false
	if strings.HasPrefix(s, "(- ") && strings.HasSuffix(s, ")") {
		neg = true
		s = s[3 : len(s)-1]
	}
	bi, ok := new(big.Int).SetString(s, 10)
	if !ok {
		return nil, false
	}
	if neg {
		bi.Neg(bi)
	}
	return bi, true
}

func (e *Exec) tdiv(x, y string) string {
	return fmt.Sprintf("(let ((dx %s) (dy %s)) (ite (>= dx 0) (ite (> dy 0) (div dx dy) (- (div dx (- dy)))) (ite (> dy 0) (- (div (- dx) dy)) (div (- dx) (- dy)))))", x, y)
}

func bitOf(x string, k uint) string {
	return fmt.Sprintf("(mod (div %s %s) 2)", x, pow2(k))
}

func widthOf(t types.Type) (uint, bool) {
	lo, hi, ok := intRange(t)
	if !ok {
		return 0, false
	}
	return uint(new(big.Int).Add(new(big.Int).Sub(hi, lo), big.NewInt(1)).BitLen() - 1), lo.Sign() < 0
}

// bitop models &, |, ^, &^ with one constant operand exactly when small; otherwise uninterpreted.
func (e *Exec) bitop(op token.Token, x, y string, t types.Type) string {
	cx, xc := constInt(x)
	cy, yc := constInt(y)
	w, signed := widthOf(t)
	if xc && !yc {
		if op != token.AND_NOT {
			x, y, cx, cy, xc, yc = y, x, cy, cx, yc, xc
		}
	}
	_ = cx
	// with floor division, bit k of a negative two's-complement number is (x div 2^k) mod 2 as well,
	// so small non-negative constant masks are exact for signed operands too
	if yc && cy.Sign() >= 0 && (!signed || uint(cy.BitLen()) < w-1) {
		switch op {
		case token.AND:
			// mask 2^k-1
			m := new(big.Int).Add(cy, big.NewInt(1))
			if m.BitLen() > 0 && new(big.Int).And(m, cy).Sign() == 0 {
				return fmt.Sprintf("(mod %s %s)", x, m)
			}
			if cy.BitLen() <= 16 {
				var parts []string
				for k := 0; k < cy.BitLen(); k++ {
					if cy.Bit(k) == 1 {
						parts = append(parts, fmt.Sprintf("(* %s %s)", pow2(uint(k)), bitOf(x, uint(k))))
					}
				}
				if len(parts) == 0 {
					return "0"
				}
				if len(parts) == 1 {
					return parts[0]
				}
				return "(+ " + strings.Join(parts, " ") + ")"
			}
		case token.OR:
			if cy.BitLen() <= 16 {
				parts := []string{x}
				for k := 0; k < cy.BitLen(); k++ {
					if cy.Bit(k) == 1 {
						parts = append(parts, fmt.Sprintf("(* %s (- 1 %s))", pow2(uint(k)), bitOf(x, uint(k))))
					}
				}
				return "(+ " + strings.Join(parts, " ") + ")"
			}
		case token.AND_NOT:
			if cy.BitLen() <= 16 {
				parts := []string{x}
				for k := 0; k < cy.BitLen(); k++ {
					if cy.Bit(k) == 1 {
						parts = append(parts, fmt.Sprintf("(* %s %s)", pow2(uint(k)), bitOf(x, uint(k))))
					}
				}
				return "(- " + strings.Join(parts, " ") + ")"
			}
		case token.XOR:
			if cy.BitLen() <= 16 {
				parts := []string{x}
				for k := 0; k < cy.BitLen(); k++ {
					if cy.Bit(k) == 1 {
						// flip bit k: +2^k if 0, -2^k if 1
						parts = append(parts, fmt.Sprintf("(* %s (- 1 (* 2 %s)))", pow2(uint(k)), bitOf(x, uint(k))))
					}
				}
				return "(+ " + strings.Join(parts, " ") + ")"
			}
			// x ^ all-ones
			if w > 0 && cy.Cmp(new(big.Int).Sub(pow2(w), big.NewInt(1))) == 0 {
				return fmt.Sprintf("(- %s %s)", cy, x)
			}
		}
	}
	name := map[token.Token]string{token.AND: "bv_and", token.OR: "bv_or", token.XOR: "bv_xor", token.AND_NOT: "bv_andnot"}[op]
	e.sc.declFun(name, []string{"Int", "Int"}, "Int")
	e.sc.used["bit operation "+name+" on non-constant operands is uninterpreted"] = true
	return wrapTo(app(name, x, y), t)
}

func (e *Exec) binop(fr *Frame, st *State, op token.Token, x, y Val, rt types.Type, pos token.Pos) string {
	xt := types.Unalias(x.Typ).Underlying()
	isInt := false
	isStr := false
	isFloat := false
	if b, ok := xt.(*types.Basic); ok {
		isInt = b.Info()&types.IsInteger != 0
		isStr = b.Info()&types.IsString != 0
		isFloat = b.Info()&types.IsFloat != 0
	}
	switch op {
	case token.EQL:
		return e.eqVals(st, x, y)
	case token.NEQ:
		return not(e.eqVals(st, x, y))
	case token.LSS, token.LEQ, token.GTR, token.GEQ:
		o := map[token.Token]string{token.LSS: "<", token.LEQ: "<=", token.GTR: ">", token.GEQ: ">="}[op]
		if isStr {
			e.sc.declFun("str_lt", []string{"Str", "Str"}, "Bool")
			switch op {
			case token.LSS:
				return app("str_lt", x.T, y.T)
			case token.GTR:
				return app("str_lt", y.T, x.T)
			case token.LEQ:
				return not(app("str_lt", y.T, x.T))
			default:
				return not(app("str_lt", x.T, y.T))
			}
		}
		return app(o, x.T, y.T)
	case token.LAND:
		return and(x.T, y.T)
	case token.LOR:
		return or(x.T, y.T)
	}
	if isStr && op == token.ADD {
		return app("str_cat", x.T, y.T)
	}
	if isFloat {
		o := map[token.Token]string{token.ADD: "+", token.SUB: "-", token.MUL: "*", token.QUO: "/"}[op]
		return app(o, x.T, y.T)
	}
	if !isInt {
		e.errorf("unsupported binop %s on %s", op, x.Typ)
		return e.fresh(st, "binop", rt).T
	}
	switch op {
	case token.ADD:
		return wrapTo(app("+", x.T, y.T), rt)
	case token.SUB:
		return wrapTo(app("-", x.T, y.T), rt)
	case token.MUL:
		return wrapTo(app("*", x.T, y.T), rt)
	case token.QUO:
		e.safety(fr, st, "(not (= "+y.T+" 0))", "div-zero", "integer division by zero", pos)
		return wrapTo(e.tdiv(x.T, y.T), rt)
	case token.REM:
		e.safety(fr, st, "(not (= "+y.T+" 0))", "div-zero", "integer division by zero", pos)
		return fmt.Sprintf("(- %s (* %s %s))", x.T, y.T, e.tdiv(x.T, y.T))
	case token.SHL:
		if c, ok := constInt(y.T); ok && c.IsInt64() && c.Int64() >= 0 && c.Int64() < 64 {
			return wrapTo(fmt.Sprintf("(* %s %s)", x.T, pow2(uint(c.Int64()))), rt)
		}
	case token.SHR:
		if c, ok := constInt(y.T); ok && c.IsInt64() && c.Int64() >= 0 && c.Int64() < 64 {
			return fmt.Sprintf("(div %s %s)", x.T, pow2(uint(c.Int64())))
		}
	case token.AND, token.OR, token.XOR, token.AND_NOT:
		return e.bitop(op, x.T, y.T, rt)
	}
	name := "bv_" + map[token.Token]string{token.SHL: "shl", token.SHR: "shr"}[op]
	e.sc.declFun(name, []string{"Int", "Int"}, "Int")
	e.sc.used["shift by non-constant amount is uninterpreted"] = true
	return wrapTo(app(name, x.T, y.T), rt)
}

func (e *Exec) eqVals(st *State, x, y Val) string {
	// comparing a slice / map / func with nil
	switch types.Unalias(x.Typ).Underlying().(type) {
	case *types.Slice:
		// only nil comparison is legal
		if y.T == "nil_slice" {
			return "(= (s_arr " + x.T + ") 0)"
		}
		return "(= (s_arr " + y.T + ") 0)"
	}
	if _, ok := types.Unalias(y.Typ).Underlying().(*types.Slice); ok {
		return "(= (s_arr " + y.T + ") 0)"
	}
	return eq(x.T, y.T)
}

// convert models Go conversions.
func (e *Exec) convert(st *State, x Val, to types.Type) string {
	from := types.Unalias(x.Typ).Underlying()
	tu := types.Unalias(to).Underlying()
	fb, fok := from.(*types.Basic)
	tb, tok := tu.(*types.Basic)
	if fok && tok {
		switch {
		case fb.Info()&types.IsInteger != 0 && tb.Info()&types.IsInteger != 0:
			if fb.Kind() == types.Uint64 && (tb.Kind() == types.Uint8) {
				// byte(x >> 8k) of a 64-bit value: named byte-extraction function (see byte64Fn)
				if k, inner, ok := shiftedBy8(x.T); ok {
					return app(e.byte64Fn(k), inner)
				}
			}
			if tb.Kind() == types.Uint8 && strings.HasPrefix(x.T, "(div ") {
				// byte(x >> k): the plain mod form (identical to what the big-endian models produce)
				if lo, _, ok := intRange(x.Typ); ok && lo.Sign() == 0 {
					return "(mod " + x.T + " 256)"
				}
			}
			// widening (every value of the source type is a value of the target type): identity.
			// Values of an integer type are always within its range (maintained at every operation).
			if flo, fhi, ok1 := intRange(x.Typ); ok1 {
				if tlo, thi, ok2 := intRange(to); ok2 && tlo.Cmp(flo) <= 0 && fhi.Cmp(thi) <= 0 && fb.Kind() != types.UntypedInt && fb.Kind() != types.UntypedRune {
					return x.T
				}
			}
			return wrapTo(x.T, to)
		case fb.Info()&types.IsInteger != 0 && tb.Info()&types.IsFloat != 0:
			return "(to_real " + x.T + ")"
		case fb.Info()&types.IsFloat != 0 && tb.Info()&types.IsInteger != 0:
			return wrapTo("(to_int "+x.T+")", to)
		case fb.Info()&types.IsFloat != 0 && tb.Info()&types.IsFloat != 0:
			return x.T
		case fb.Info()&types.IsString != 0 && tb.Info()&types.IsString != 0:
			return x.T
		case fb.Info()&types.IsInteger != 0 && tb.Info()&types.IsString != 0:
			e.sc.declFun("str_of_rune", []string{"Int"}, "Str")
			return app("str_of_rune", x.T)
		case fb.Kind() == types.UnsafePointer || tb.Kind() == types.UnsafePointer:
			return x.T
		}
	}
	if _, ok := from.(*types.Slice); ok && tok && tb.Info()&types.IsString != 0 {
		return e.strOfBytes(st, x.T)
	}
	if fok && fb.Info()&types.IsString != 0 {
		if _, ok := tu.(*types.Slice); ok {
			// []byte(s): fresh array holding the bytes of s
			arr := e.alloc(st)
			m := e.elemHeap(types.Typ[types.Byte])
			e.sc.declFun("str_bytes", []string{"Str"}, "(Array Int Int)")
			e.hset(st, m, sto(e.hget(st, m), arr, app("str_bytes", x.T)))
			return fmt.Sprintf("(mk_slice %s 0 (str_len %s) (str_len %s))", arr, x.T, x.T)
		}
	}
	if e.sc.sortOf(x.Typ) == e.sc.sortOf(to) {
		return x.T
	}
	e.errorf("unsupported conversion %s -> %s", x.Typ, to)
	return e.fresh(st, "conv", to).T
}

// seqOf gives the position-independent content of a byte slice: (Array Int Int) with index 0 = first element, 0 beyond len.
func (e *Exec) seqFun() string {
	if !e.sc.declared["seq"] {
		e.sc.declFun("seq", []string{"(Array Int Int)", "Int", "Int"}, "(Array Int Int)")
		e.sc.axiom("seq", "(forall ((a (Array Int Int)) (o Int) (n Int) (i Int)) (! (= (select (seq a o n) i) (ite (and (<= 0 i) (< i n)) (select a (+ o i)) 0)) :pattern ((select (seq a o n) i))))")
		// extensionality for sequences, in triggerable form: two sequences of the same length are
		// equal unless they differ at the witness index seqdiff
		e.sc.declFun("seqdiff", []string{"(Array Int Int)", "Int", "(Array Int Int)", "Int", "Int"}, "Int")
		e.sc.axiom("seq_ext", "(forall ((a (Array Int Int)) (o Int) (b (Array Int Int)) (p Int) (n Int)) (! (or (= (seq a o n) (seq b p n)) (and (<= 0 (seqdiff a o b p n)) (< (seqdiff a o b p n) n) (not (= (select a (+ o (seqdiff a o b p n))) (select b (+ p (seqdiff a o b p n))))))) :pattern ((seq a o n) (seq b p n))))")
	}
	return "seq"
}

func (e *Exec) seqOfSlice(st *State, s string) string {
	m := e.elemHeap(types.Typ[types.Byte])
	return app(e.seqFun(), sel(e.hget(st, m), "(s_arr "+s+")"), "(s_off "+s+")", "(s_len "+s+")")
}

func (e *Exec) strOfBytes(st *State, s string) string {
	e.sc.declFun("str_of_seq", []string{"(Array Int Int)", "Int"}, "Str")
	e.sc.axiom("str_of_seq_len", "(forall ((a (Array Int Int)) (n Int)) (! (=> (>= n 0) (= (str_len (str_of_seq a n)) n)) :pattern ((str_of_seq a n))))")
	return app("str_of_seq", e.seqOfSlice(st, s), "(s_len "+s+")")
}

func (e *Exec) boxIface(t types.Type, v string) string {
	// non-pointer payloads are boxed through an injective uninterpreted function
	srt := e.sc.sortOf(t)
	bn := "ibox_" + sortTag(srt)
	if !e.sc.declared[bn] {
		e.sc.declFun(bn, []string{srt}, "Int")
		e.sc.declFun("un"+bn, []string{"Int"}, srt)
		e.sc.axiom(bn, fmt.Sprintf("(forall ((v %s)) (! (= (un%s (%s v)) v) :pattern ((%s v))))", srt, bn, bn, bn))
	}
	return app(bn, v)
}

func pointerLike(t types.Type) bool {
	switch types.Unalias(t).Underlying().(type) {
	case *types.Pointer, *types.Map, *types.Chan, *types.Signature:
		return true
	}
	return false
}

func (e *Exec) makeIface(st *State, x Val) string {
	t := x.Typ
	if _, ok := types.Unalias(t).Underlying().(*types.Interface); ok {
		return x.T
	}
	tag := e.sc.typeTag(t)
	if pointerLike(t) {
		pv := x.T
		if x.Loc != nil && x.Loc.Kind != LBox && x.Loc.Kind != LArray {
			pv = e.locAddrTerm(x.Loc)
		}
		return fmt.Sprintf("(mk_iface %s %s)", tag, pv)
	}
	return fmt.Sprintf("(mk_iface %s %s)", tag, e.boxIface(t, x.T))
}

func (e *Exec) unboxIface(t types.Type, iv string) string {
	if pointerLike(t) {
		return "(i_val " + iv + ")"
	}
	srt := e.sc.sortOf(t)
	bn := "ibox_" + sortTag(srt)
	e.boxIface(t, e.sc.zeroOf(t))
	return app("un"+bn, "(i_val "+iv+")")
}

// locAddrTerm gives an Int standing for the address of a field/element location.
func (e *Exec) locAddrTerm(l *Loc) string {
	switch l.Kind {
	case LField:
		name := "addr_" + l.Map
		if !e.sc.declared[name] {
			e.sc.declFun(name, []string{"Int"}, "Int")
			e.sc.declFun(name+"_inv", []string{"Int"}, "Int")
			e.sc.declFun("root", []string{"Int"}, "Int")
			e.sc.declFun("emb_tag", []string{"Int"}, "Int")
			tag := e.sc.typeTag(types.NewPointer(types.NewTuple(types.NewVar(0, nil, name, types.Typ[types.Int]))))
			e.sc.axiom(name, fmt.Sprintf("(forall ((r Int)) (! (and (= (%s_inv (%s r)) r) (= (emb_tag (%s r)) %s) (< (%s r) 0) (= (root (%s r)) (root r))) :pattern ((%s r))))", name, name, name, tag, name, name, name))
		}
		return app(name, l.Base)
	case LElem:
		f := e.sc.declFun("addr_elem", []string{"Int", "Int"}, "Int")
		return app(f, l.Base, l.Idx)
	case LBox, LArray:
		return l.Base
	case LGlobal:
		return e.sc.declGlobalConst("addr_"+l.Map, "Int")
	case LCell:
		return e.sc.declGlobalConst("addr_cell_"+sanitize(l.Cell), "Int")
	}
	return "0"
}

func (e *Exec) instr(fr *Frame, st *State, in ssa.Instruction) {
	switch x := in.(type) {
	case *ssa.DebugRef:
	case *ssa.Alloc:
		e.instrAlloc(fr, st, x)
	case *ssa.FieldAddr:
		base := e.val(fr, st, x.X)
		stT := types.Unalias(x.X.Type()).Underlying().(*types.Pointer).Elem()
		u := stT.Underlying().(*types.Struct)
		ft := u.Field(x.Field).Type()
		if base.Loc != nil && base.Loc.Kind == LElem {
			e.errorf("%s: field address of slice element of struct type is not modelled (%s)", fr.fn.Name(), e.pos(x.Pos()))
			fr.regs[x] = e.fresh(st, "fa", x.Type())
			return
		}
		if base.Loc != nil && base.Loc.Kind == LField {
			// address of a by-value library struct stored in a field (e.g. &s.pool of type sync.Pool)
			base = Val{T: e.locAddrTerm(base.Loc), Typ: base.Typ, NonNil: true, Prov: base.Loc.Prov, Root: base.Loc.Root}
		}
		if e.sc.opaqueStruct(stT) {
			// field of a library struct: opaque box keyed by object and field
			e.nilCheck(fr, st, base, x.Pos())
			m := e.heapMap("F_"+structName(stT)+"."+sanitize(u.Field(x.Field).Name()), "(Array Int "+e.sc.sortOf(ft)+")")
			prov, root := base.Prov, base.Root
			if prov == "" {
				prov, root = structName(stT), base.T
			}
			fr.regs[x] = Val{T: "0", Typ: x.Type(), NonNil: true, Loc: &Loc{Kind: LField, Base: base.T, Map: m, Typ: ft, Prov: prov + "." + u.Field(x.Field).Name(), Root: root}}
			return
		}
		e.nilCheck(fr, st, base, x.Pos())
		switch e.fieldKindOf(ft) {
		case fkScalar:
			fr.regs[x] = Val{T: "0", Typ: x.Type(), NonNil: true, Loc: &Loc{Kind: LField, Base: base.T, Map: e.fieldMap(stT, x.Field), Typ: ft}}
		case fkStruct:
			// taking the address of a guarded by-value struct counts as an access to it
			e.guardField(fr, st, e.fieldMapName(stT, x.Field), base.T, x.Pos(), false)
			fr.regs[x] = Val{T: app(e.embFun(stT, x.Field), base.T), Typ: x.Type(), NonNil: true}
		case fkArray:
			r := app(e.embFun(stT, x.Field), base.T)
			fr.regs[x] = Val{T: r, Typ: x.Type(), NonNil: true, Loc: &Loc{Kind: LArray, Base: r, Typ: ft}}
		}
		if r, ok := fr.regs[x]; ok && r.Loc != nil && r.Loc.Kind == LField {
			bv := e.val(fr, st, x.X)
			stT := types.Unalias(x.X.Type()).Underlying().(*types.Pointer).Elem()
			fname := stT.Underlying().(*types.Struct).Field(x.Field).Name()
			prov, root := bv.Prov, bv.Root
			if prov == "" {
				prov, root = strings.TrimPrefix(structName(stT), ""), bv.T
				if bv.Loc != nil && bv.Loc.Kind == LField {
					root = e.locAddrTerm(bv.Loc)
				}
			}
			r.Loc.Prov, r.Loc.Root = prov+"."+fname, root
		}
	case *ssa.IndexAddr:
		xv := e.val(fr, st, x.X)
		idx := e.val(fr, st, x.Index)
		switch t := types.Unalias(x.X.Type()).Underlying().(type) {
		case *types.Slice:
			e.safety(fr, st, fmt.Sprintf("(and (<= 0 %s) (< %s (s_len %s)))", idx.T, idx.T, xv.T), "index", "slice index out of range", x.Pos())
			fr.regs[x] = Val{T: "0", Typ: x.Type(), NonNil: true, Loc: &Loc{Kind: LElem, Base: "(s_arr " + xv.T + ")", Idx: fmt.Sprintf("(+ (s_off %s) %s)", xv.T, idx.T), Off: "(s_off " + xv.T + ")", Rel: idx.T, Typ: t.Elem()}}
		case *types.Pointer:
			at := t.Elem().Underlying().(*types.Array)
			l := e.locOf(xv)
			e.nilCheck(fr, st, xv, x.Pos())
			e.safety(fr, st, fmt.Sprintf("(and (<= 0 %s) (< %s %d))", idx.T, idx.T, at.Len()), "index", "array index out of range", x.Pos())
			fr.regs[x] = Val{T: "0", Typ: x.Type(), NonNil: true, Loc: &Loc{Kind: LElem, Base: l.Base, Idx: idx.T, Typ: at.Elem()}}
		default:
			e.errorf("IndexAddr on %s", x.X.Type())
		}
	case *ssa.Field:
		xv := e.val(fr, st, x.X)
		e.setReg(fr, st, x, Val{T: app(e.sc.accessor(x.X.Type(), x.Field), xv.T)})
	case *ssa.Index:
		xv := e.val(fr, st, x.X)
		idx := e.val(fr, st, x.Index)
		switch t := types.Unalias(x.X.Type()).Underlying().(type) {
		case *types.Array:
			e.safety(fr, st, fmt.Sprintf("(and (<= 0 %s) (< %s %d))", idx.T, idx.T, t.Len()), "index", "array index out of range", x.Pos())
			e.setReg(fr, st, x, Val{T: sel(xv.T, idx.T)})
		default:
			// string index
			e.safety(fr, st, fmt.Sprintf("(and (<= 0 %s) (< %s (str_len %s)))", idx.T, idx.T, xv.T), "index", "string index out of range", x.Pos())
			e.sc.declFun("str_at", []string{"Str", "Int"}, "Int")
			r := app("str_at", xv.T, idx.T)
			e.sc.assume(st.reach, e.sc.rangeFact(r, x.Type()))
			e.setReg(fr, st, x, Val{T: r})
		}
	case *ssa.Extract:
		tv := e.val(fr, st, x.Tuple)
		if x.Index < len(tv.Tuple) {
			r := tv.Tuple[x.Index]
			r.Typ = x.Type()
			fr.regs[x] = r
		} else {
			fr.regs[x] = e.fresh(st, "extract", x.Type())
		}
	case *ssa.UnOp:
		e.instrUnOp(fr, st, x)
	case *ssa.BinOp:
		a, b := e.val(fr, st, x.X), e.val(fr, st, x.Y)
		e.setReg(fr, st, x, Val{T: e.binop(fr, st, x.Op, a, b, x.Type(), x.Pos())})
	case *ssa.Convert:
		a := e.val(fr, st, x.X)
		e.setReg(fr, st, x, Val{T: e.convert(st, a, x.Type())})
	case *ssa.ChangeType:
		a := e.val(fr, st, x.X)
		a.Typ = x.Type()
		fr.regs[x] = a
	case *ssa.ChangeInterface:
		a := e.val(fr, st, x.X)
		a.Typ = x.Type()
		fr.regs[x] = a
	case *ssa.MakeInterface:
		a := e.val(fr, st, x.X)
		v := Val{T: e.makeIface(st, a), Typ: x.Type()}
		if a.Fn != nil {
			v.Fn, v.Bind = a.Fn, a.Bind
		}
		// remember pointer shape for values wrapped in interfaces (e.g. heap.Push(&sb.sh, ...))
		if a.Loc != nil {
			v.Loc = a.Loc
		}
		e.setRegKeep(fr, st, x, v)
	case *ssa.TypeAssert:
		e.instrTypeAssert(fr, st, x)
	case *ssa.Slice:
		e.instrSlice(fr, st, x)
	case *ssa.MakeSlice:
		ln := e.val(fr, st, x.Len)
		cp := e.val(fr, st, x.Cap)
		e.safety(fr, st, fmt.Sprintf("(and (<= 0 %s) (<= %s %s))", ln.T, ln.T, cp.T), "makeslice", "make([]T, n): length out of range", x.Pos())
		arr := e.alloc(st)
		el := x.Type().Underlying().(*types.Slice).Elem()
		m := e.elemHeap(el)
		e.hset(st, m, sto(e.hget(st, m), arr, e.sc.zeroOf(types.NewArray(el, 0))))
		e.setReg(fr, st, x, Val{T: fmt.Sprintf("(mk_slice %s 0 %s %s)", arr, ln.T, cp.T)})
	case *ssa.MakeMap:
		ref := e.alloc(st)
		mt := x.Type().Underlying().(*types.Map)
		mv, md, mc := e.mapHeaps(mt)
		_ = mv
		e.hset(st, md, sto(e.hget(st, md), ref, fmt.Sprintf("((as const (Array %s Bool)) false)", e.sc.sortOf(mt.Key()))))
		e.hset(st, mc, sto(e.hget(st, mc), ref, "0"))
		fr.regs[x] = Val{T: ref, Typ: x.Type(), NonNil: true}
	case *ssa.MakeChan:
		ref := e.alloc(st)
		fr.regs[x] = Val{T: ref, Typ: x.Type(), NonNil: true}
	case *ssa.MakeClosure:
		fn := x.Fn.(*ssa.Function)
		v := Val{T: e.alloc(st), Typ: x.Type(), Fn: fn, NonNil: true}
		for _, b := range x.Bindings {
			v.Bind = append(v.Bind, e.val(fr, st, b))
		}
		fr.regs[x] = v
	case *ssa.MapUpdate:
		m := e.val(fr, st, x.Map)
		k := e.val(fr, st, x.Key)
		v := e.val(fr, st, x.Value)
		mt := types.Unalias(x.Map.Type()).Underlying().(*types.Map)
		e.safety(fr, st, "(not (= "+m.T+" 0))", "nil-map", "assignment to entry in nil map", x.Pos())
		e.mapStore(st, mt, m.T, k.T, v.T)
	case *ssa.Lookup:
		e.instrLookup(fr, st, x)
	case *ssa.Range:
		e.instrRange(fr, st, x)
	case *ssa.Next:
		e.instrNext(fr, st, x)
	case *ssa.Phi:
		// handled at block entry (see execBlock caller); naive form yields phis only for && and ||
		e.instrPhi(fr, st, x)
	case *ssa.Store:
		e.instrStore(fr, st, x)
	case *ssa.Call:
		res := e.call(fr, st, x.Common(), x, x.Pos())
		res.Typ = x.Type()
		if res.Tuple == nil && res.Loc == nil && res.Fn == nil {
			e.setRegKeep(fr, st, x, res)
		} else {
			fr.regs[x] = res
		}
	case *ssa.Defer:
		d := &deferRec{call: x.Common(), pos: x.Pos()}
		d.fnv = e.val(fr, st, x.Call.Value)
		for _, a := range x.Call.Args {
			d.args = append(d.args, e.val(fr, st, a))
		}
		st.defers = append(st.defers, d)
	case *ssa.RunDefers:
		e.runDefers(fr, st)
	case *ssa.Go:
		e.instrGo(fr, st, x)
	case *ssa.Send:
		e.sc.used["channel send is modelled as a non-blocking no-op (no channel model)"] = true
	case *ssa.Select:
		fr.regs[x] = e.fresh(st, "select", x.Type())
	default:
		e.errorf("%s: unsupported instruction %T at %s", fr.fn.Name(), in, e.pos(in.Pos()))
		if v, ok := in.(ssa.Value); ok {
			fr.regs[v] = e.fresh(st, "unsup", v.Type())
		}
	}
}

func (e *Exec) setRegKeep(fr *Frame, st *State, v ssa.Value, val Val) {
	loc, fn, bind := val.Loc, val.Fn, val.Bind
	val.Loc, val.Fn = nil, nil
	e.setReg(fr, st, v, val)
	r := fr.regs[v]
	r.Loc, r.Fn, r.Bind = loc, fn, bind
	fr.regs[v] = r
}

func (e *Exec) instrAlloc(fr *Frame, st *State, x *ssa.Alloc) {
	t := x.Type().(*types.Pointer).Elem()
	switch {
	case e.isModelStruct(t):
		ref := e.alloc(st)
		e.zeroObject(st, ref, t)
		fr.regs[x] = Val{T: ref, Typ: x.Type(), NonNil: true}
		if privateAlloc(x) {
			// a struct-typed local whose address never leaves the function: callees cannot change it
			for _, tg := range e.structTargets(ref, t) {
				st.priv = append(st.priv, privBox{tg.heap, tg.ref})
			}
		}
	case isArrayT(t):
		arr := e.alloc(st)
		at := t.Underlying().(*types.Array)
		m := e.elemHeap(at.Elem())
		e.hset(st, m, sto(e.hget(st, m), arr, e.sc.zeroOf(t)))
		fr.regs[x] = Val{T: arr, Typ: x.Type(), NonNil: true, Loc: &Loc{Kind: LArray, Base: arr, Typ: t}}
	case x.Heap && !isStructT(t) && sharedCell(x):
		// a captured local that never escapes: one named cell shared with the closures that capture it
		key, _ := sharedCellKey(x)
		if e.cellTypes == nil {
			e.cellTypes = map[string]types.Type{}
		}
		e.cellTypes[key] = t
		st.cells[key] = e.sc.zeroOf(t)
		fr.regs[x] = Val{T: "0", Typ: x.Type(), NonNil: true, Loc: &Loc{Kind: LCell, Cell: key, Typ: t}}
	case x.Heap || isStructT(t):
		// (library structs held by value get an object identity too, so that their fields can be addressed)
		ref := e.alloc(st)
		m := e.boxHeap(t)
		e.hset(st, m, sto(e.hget(st, m), ref, e.sc.zeroOf(t)))
		fr.regs[x] = Val{T: ref, Typ: x.Type(), NonNil: true, Loc: &Loc{Kind: LBox, Base: ref, Typ: t}}
		if x.Heap && !isStructT(t) && privateAlloc(x) {
			st.priv = append(st.priv, privBox{m, ref})
		}
		if nt, ok := types.Unalias(t).(*types.Named); ok && nt.Obj().Pkg() != nil && nt.Obj().Pkg().Path() == "bytes" && nt.Obj().Name() == "Buffer" {
			// new(bytes.Buffer): empty ghost FIFO
			e.bufferMaps()
			e.hset(st, "GB_bufrd", sto(e.hget(st, "GB_bufrd"), ref, "0"))
			e.hset(st, "GB_bufwr", sto(e.hget(st, "GB_bufwr"), ref, "0"))
		}
	default:
		key := fmt.Sprintf("f%d.%s.%d", fr.id, x.Comment, len(fr.regs))
		st.cells[key] = e.sc.zeroOf(t)
		fr.regs[x] = Val{T: "0", Typ: x.Type(), NonNil: true, Loc: &Loc{Kind: LCell, Cell: key, Typ: t}}
	}
}

func isArrayT(t types.Type) bool {
	_, ok := types.Unalias(t).Underlying().(*types.Array)
	return ok
}

func (e *Exec) instrUnOp(fr *Frame, st *State, x *ssa.UnOp) {
	a := e.val(fr, st, x.X)
	switch x.Op {
	case token.MUL: // load
		if g, ok := x.X.(*ssa.Global); ok {
			if c, ok := e.immutableGlobal(g); ok {
				fr.regs[x] = Val{T: c, Typ: x.Type(), NonNil: true}
				return
			}
			if fn := e.globalFuncValue(g); fn != "" {
				fr.regs[x] = Val{T: "0", Typ: x.Type(), Bind: nil, Fn: nil, Loc: nil, Tuple: nil}
				r := fr.regs[x]
				r.T = "gfn:" + fn
				fr.regs[x] = r
				return
			}
		}
		t := x.Type()
		if e.isModelStruct(t) && a.Loc == nil {
			e.nilCheck(fr, st, a, x.Pos())
			e.checkGuardStruct(fr, st, a.T, t, x.Pos())
			e.setReg(fr, st, x, Val{T: e.loadStruct(st, a.T, t)})
			return
		}
		l := e.locOf(a)
		if l.Kind == LBox || l.Kind == LArray {
			e.nilCheck(fr, st, a, x.Pos())
		}
		e.checkGuard(fr, st, l, x.Pos(), false)
		v := e.load(st, l)
		e.setReg(fr, st, x, Val{T: v})
		r := fr.regs[x]
		if l.Kind != LCell {
			e.sc.assume(st.reach, e.sc.rangeFact(r.T, t))
			e.sc.assume(st.reach, e.allocFact(st, r.T, t))
		}
		// provenance (for lock classification): kept through library pointers such as *sync.Cond,
		// reset when a pointer to one of the repository's own structs is loaded
		if l.Kind == LField && l.Prov != "" {
			keep := true
			if pt, ok := types.Unalias(t).Underlying().(*types.Pointer); ok && e.isModelStruct(pt.Elem()) {
				keep = false
			}
			if keep {
				r.Prov, r.Root = l.Prov, l.Root
				fr.regs[x] = r
			}
		}
		// closures / function values stored in cells keep their identity
		if l.Kind == LCell {
			if fv, ok := e.cellFn(fr, l.Cell); ok {
				r.Fn, r.Bind = fv.Fn, fv.Bind
				fr.regs[x] = r
			}
		}
	case token.NOT:
		e.setReg(fr, st, x, Val{T: not(a.T)})
	case token.SUB:
		if b, ok := x.Type().Underlying().(*types.Basic); ok && b.Info()&types.IsFloat != 0 {
			e.setReg(fr, st, x, Val{T: "(- " + a.T + ")"})
			return
		}
		e.setReg(fr, st, x, Val{T: wrapTo("(- "+a.T+")", x.Type())})
	case token.XOR:
		lo, hi, _ := intRange(x.Type())
		if lo.Sign() == 0 {
			e.setReg(fr, st, x, Val{T: fmt.Sprintf("(- %s %s)", hi, a.T)})
		} else {
			e.setReg(fr, st, x, Val{T: fmt.Sprintf("(- (- %s) 1)", a.T)})
		}
	case token.ARROW:
		e.sc.used["channel receive yields an arbitrary value (no channel model)"] = true
		fr.regs[x] = e.fresh(st, "recv", x.Type())
	default:
		e.errorf("unsupported unop %s", x.Op)
		fr.regs[x] = e.fresh(st, "unop", x.Type())
	}
}

func (e *Exec) cellFn(fr *Frame, cell string) (Val, bool) {
	v, ok := e.cellFns[fmt.Sprintf("%p/%s", fr, cell)]
	return v, ok
}

func (e *Exec) instrStore(fr *Frame, st *State, x *ssa.Store) {
	addr := e.val(fr, st, x.Addr)
	v := e.val(fr, st, x.Val)
	t := x.Val.Type()
	if e.isModelStruct(t) && addr.Loc == nil {
		e.nilCheck(fr, st, addr, x.Pos())
		e.checkGuardStruct(fr, st, addr.T, t, x.Pos())
		e.storeStruct(st, addr.T, t, v.T)
		return
	}
	l := e.locOf(addr)
	if l.Kind == LBox || l.Kind == LArray {
		e.nilCheck(fr, st, addr, x.Pos())
	}
	e.checkGuard(fr, st, l, x.Pos(), true)
	if l.Kind == LCell && v.Fn != nil {
		e.cellFns[fmt.Sprintf("%p/%s", fr, l.Cell)] = v
	}
	val := v.T
	if v.Loc != nil && (v.Loc.Kind == LField || v.Loc.Kind == LElem || v.Loc.Kind == LGlobal || v.Loc.Kind == LCell) {
		val = e.locAddrTerm(v.Loc)
	}
	e.store(st, l, val)
}

func (e *Exec) instrSlice(fr *Frame, st *State, x *ssa.Slice) {
	xv := e.val(fr, st, x.X)
	var lo, hi, mx string
	if x.Low != nil {
		lo = e.val(fr, st, x.Low).T
	} else {
		lo = "0"
	}
	switch t := types.Unalias(x.X.Type()).Underlying().(type) {
	case *types.Slice:
		if x.High != nil {
			hi = e.val(fr, st, x.High).T
		} else {
			hi = "(s_len " + xv.T + ")"
		}
		capT := "(s_cap " + xv.T + ")"
		if x.Max != nil {
			mx = e.val(fr, st, x.Max).T
			e.safety(fr, st, fmt.Sprintf("(and (<= 0 %s) (<= %s %s) (<= %s %s) (<= %s %s))", lo, lo, hi, hi, mx, mx, capT), "slice", "slice bounds out of range", x.Pos())
		} else {
			mx = capT
			e.safety(fr, st, fmt.Sprintf("(and (<= 0 %s) (<= %s %s) (<= %s %s))", lo, lo, hi, hi, capT), "slice", "slice bounds out of range", x.Pos())
		}
		if lo == "1" && x.High == nil && isIntElem(t.Elem()) {
			e.sumDropHead(st, xv.T)
		}
		e.setReg(fr, st, x, Val{T: fmt.Sprintf("(mk_slice (s_arr %s) (+ (s_off %s) %s) (- %s %s) (- %s %s))", xv.T, xv.T, lo, hi, lo, mx, lo)})
	case *types.Pointer:
		at := t.Elem().Underlying().(*types.Array)
		l := e.locOf(xv)
		e.nilCheck(fr, st, xv, x.Pos())
		n := fmt.Sprint(at.Len())
		if x.High != nil {
			hi = e.val(fr, st, x.High).T
		} else {
			hi = n
		}
		mx = n
		if x.Max != nil {
			mx = e.val(fr, st, x.Max).T
		}
		e.safety(fr, st, fmt.Sprintf("(and (<= 0 %s) (<= %s %s) (<= %s %s) (<= %s %s))", lo, lo, hi, hi, mx, mx, n), "slice", "slice bounds out of range", x.Pos())
		e.setReg(fr, st, x, Val{T: fmt.Sprintf("(mk_slice %s %s (- %s %s) (- %s %s))", l.Base, lo, hi, lo, mx, lo)})
	case *types.Basic: // string
		if x.High != nil {
			hi = e.val(fr, st, x.High).T
		} else {
			hi = "(str_len " + xv.T + ")"
		}
		e.safety(fr, st, fmt.Sprintf("(and (<= 0 %s) (<= %s %s) (<= %s (str_len %s)))", lo, lo, hi, hi, xv.T), "slice", "string slice bounds out of range", x.Pos())
		e.sc.declFun("str_sub", []string{"Str", "Int", "Int"}, "Str")
		e.setReg(fr, st, x, Val{T: app("str_sub", xv.T, lo, hi)})
	default:
		e.errorf("Slice of %s", x.X.Type())
		fr.regs[x] = e.fresh(st, "slice", x.Type())
	}
}

func (e *Exec) instrTypeAssert(fr *Frame, st *State, x *ssa.TypeAssert) {
	a := e.val(fr, st, x.X)
	_, toIface := types.Unalias(x.AssertedType).Underlying().(*types.Interface)
	var ok, val string
	if toIface {
		// dynamic type implements interface: undecidable from tags; uninterpreted predicate
		e.sc.declFun("implements", []string{"Int", "Int"}, "Bool")
		ok = and("(not (= (i_typ "+a.T+") 0))", app("implements", "(i_typ "+a.T+")", e.sc.typeTag(x.AssertedType)))
		val = a.T
	} else {
		ok = "(= (i_typ " + a.T + ") " + e.sc.typeTag(x.AssertedType) + ")"
		val = e.unboxIface(x.AssertedType, a.T)
	}
	if x.CommaOk {
		okn := e.sc.freshName("taok")
		e.sc.define(okn, "Bool", ok)
		zero := e.sc.zeroOf(x.AssertedType)
		vn := e.sc.freshName("taval")
		e.sc.define(vn, e.sc.sortOf(x.AssertedType), ite(okn, val, zero))
		rv := Val{T: vn, Typ: x.AssertedType}
		if a.Loc != nil {
			rv.Loc = a.Loc
		}
		fr.regs[x] = Val{Typ: x.Type(), Tuple: []Val{rv, {T: okn, Typ: types.Typ[types.Bool]}}}
		return
	}
	if toIface {
		e.sc.used["type assertions to interface types (x.(net.Conn) on sync.Map / sync.Pool contents) are assumed to succeed"] = true
		e.sc.assume(st.reach, ok)
	} else if e.poolTyped(fr, x) {
		e.sc.used["values taken from a sync.Pool have the type its New function produces"] = true
		e.sc.assume(st.reach, ok)
	} else {
		e.safety(fr, st, ok, "type-assert", "type assertion may fail", x.Pos())
	}
	rv := Val{T: val, Typ: x.AssertedType}
	if a.Loc != nil && pointerLike(x.AssertedType) {
		rv.Loc = a.Loc
	}
	e.setRegKeep(fr, st, x, rv)
}

// poolTyped: the asserted value is the direct result of (*sync.Pool).Get.
func (e *Exec) poolTyped(fr *Frame, x *ssa.TypeAssert) bool {
	c, ok := x.X.(*ssa.Call)
	if !ok {
		return false
	}
	if f := c.Call.StaticCallee(); f != nil && fullKeyOfFunc(f) == "(*sync.Pool).Get" {
		return true
	}
	return false
}

func (e *Exec) mapStore(st *State, mt *types.Map, m, k, v string) {
	mv, md, mc := e.mapHeaps(mt)
	hv, hd, hc := e.hget(st, mv), e.hget(st, md), e.hget(st, mc)
	present := sel(sel(hd, m), k)
	e.hset(st, mc, sto(hc, m, fmt.Sprintf("(+ %s (ite %s 0 1))", sel(hc, m), present)))
	e.hset(st, mv, sto(hv, m, sto(sel(hv, m), k, v)))
	e.hset(st, md, sto(hd, m, sto(sel(hd, m), k, "true")))
}

func (e *Exec) mapDelete(st *State, mt *types.Map, m, k string) {
	_, md, mc := e.mapHeaps(mt)
	hd, hc := e.hget(st, md), e.hget(st, mc)
	present := sel(sel(hd, m), k)
	e.hset(st, mc, sto(hc, m, fmt.Sprintf("(- %s (ite %s 1 0))", sel(hc, m), present)))
	e.hset(st, md, sto(hd, m, sto(sel(hd, m), k, "false")))
}

func (e *Exec) mapFacts(st *State, mt *types.Map, m string) {
	_, md, mc := e.mapHeaps(mt)
	hd, hc := e.hget(st, md), e.hget(st, mc)
	ks := e.sc.sortOf(mt.Key())
	e.sc.assume(st.reach, fmt.Sprintf("(>= %s 0)", sel(hc, m)))
	e.sc.assume(st.reach, fmt.Sprintf("(=> (= %s 0) (= %s 0))", m, sel(hc, m)))
	// card = 0 <=> empty
	e.sc.assume(st.reach, fmt.Sprintf("(=> (= %s 0) (forall ((k %s)) (! (not (select %s k)) :pattern ((select %s k)))))", sel(hc, m), ks, sel(hd, m), sel(hd, m)))
	e.sc.assume(st.reach, fmt.Sprintf("(forall ((k %s)) (! (=> (select %s k) (> %s 0)) :pattern ((select %s k))))", ks, sel(hd, m), sel(hc, m), sel(hd, m)))
}

func (e *Exec) instrLookup(fr *Frame, st *State, x *ssa.Lookup) {
	xv := e.val(fr, st, x.X)
	k := e.val(fr, st, x.Index)
	mt, ok := types.Unalias(x.X.Type()).Underlying().(*types.Map)
	if !ok {
		// string index
		e.safety(fr, st, fmt.Sprintf("(and (<= 0 %s) (< %s (str_len %s)))", k.T, k.T, xv.T), "index", "string index out of range", x.Pos())
		e.sc.declFun("str_at", []string{"Str", "Int"}, "Int")
		r := app("str_at", xv.T, k.T)
		e.sc.assume(st.reach, e.sc.rangeFact(r, x.Type()))
		e.setReg(fr, st, x, Val{T: r})
		return
	}
	mv, md, _ := e.mapHeaps(mt)
	e.checkGuardMap(fr, st, x.X, x.Pos(), false)
	e.mapFacts(st, mt, xv.T)
	present := and("(not (= "+xv.T+" 0))", sel(sel(e.hget(st, md), xv.T), k.T))
	pn := e.sc.freshName("present")
	e.sc.define(pn, "Bool", present)
	v := ite(pn, sel(sel(e.hget(st, mv), xv.T), k.T), e.sc.zeroOf(mt.Elem()))
	vn := e.sc.freshName("mval")
	e.sc.define(vn, e.sc.sortOf(mt.Elem()), v)
	e.sc.assume(st.reach, e.sc.rangeFact(vn, mt.Elem()))
	e.sc.assume(st.reach, e.allocFact(st, vn, mt.Elem()))
	if x.CommaOk {
		fr.regs[x] = Val{Typ: x.Type(), Tuple: []Val{{T: vn, Typ: mt.Elem()}, {T: pn, Typ: types.Typ[types.Bool]}}}
	} else {
		fr.regs[x] = Val{T: vn, Typ: x.Type()}
	}
}

func (e *Exec) instrRange(fr *Frame, st *State, x *ssa.Range) {
	xv := e.val(fr, st, x.X)
	mt, ok := types.Unalias(x.X.Type()).Underlying().(*types.Map)
	if !ok {
		e.errorf("%s: range over %s not modelled", fr.fn.Name(), x.X.Type())
		fr.regs[x] = Val{T: "0", Typ: x.Type()}
		return
	}
	e.checkGuardMap(fr, st, x.X, x.Pos(), false)
	ks := e.sc.sortOf(mt.Key())
	name := e.heapMap(e.sc.freshName("G_visited"), "(Array "+ks+" Bool)")
	e.hset(st, name, fmt.Sprintf("((as const (Array %s Bool)) false)", ks))
	fr.rangeIt[x] = &rangeInfo{mapVal: xv, visited: name, keySort: ks}
	fr.regs[x] = Val{T: "0", Typ: x.Type()}
}

func (e *Exec) instrNext(fr *Frame, st *State, x *ssa.Next) {
	ri := fr.rangeIt[x.Iter]
	if ri == nil {
		fr.regs[x] = e.fresh(st, "next", x.Type())
		return
	}
	mt := types.Unalias(ri.mapVal.Typ).Underlying().(*types.Map)
	mv, md, _ := e.mapHeaps(mt)
	ok := e.sc.freshConst("next.ok", "Bool")
	k := e.sc.freshConst("next.k", ri.keySort)
	vis := e.hget(st, ri.visited)
	dom := sel(e.hget(st, md), ri.mapVal.T)
	// ok => k unvisited, present;  !ok => every present key visited
	e.sc.assume(st.reach, fmt.Sprintf("(=> %s (and (not (select %s %s)) (select %s %s)))", ok, vis, k, dom, k))
	e.sc.assume(st.reach, fmt.Sprintf("(=> (not %s) (forall ((kk %s)) (! (=> (select %s kk) (select %s kk)) :pattern ((select %s kk)))))", ok, ri.keySort, dom, vis, dom))
	v := sel(sel(e.hget(st, mv), ri.mapVal.T), k)
	vn := e.sc.freshName("next.v")
	e.sc.define(vn, e.sc.sortOf(mt.Elem()), v)
	e.sc.assume(st.reach, e.sc.rangeFact(vn, mt.Elem()))
	e.sc.assume(st.reach, e.allocFact(st, vn, mt.Elem()))
	e.sc.assume(st.reach, e.sc.rangeFact(k, mt.Key()))
	e.hset(st, ri.visited, ite(ok, sto(vis, k, "true"), vis))
	fr.regs[x] = Val{Typ: x.Type(), Tuple: []Val{{T: ok, Typ: types.Typ[types.Bool]}, {T: k, Typ: mt.Key()}, {T: vn, Typ: mt.Elem()}}}
}

func (e *Exec) instrPhi(fr *Frame, st *State, x *ssa.Phi) {
	b := x.Block()
	var acc string
	for i := len(x.Edges) - 1; i >= 0; i-- {
		pred := b.Preds[i]
		v := e.val(fr, st, x.Edges[i])
		cond := fr.edgeReach[edgeKey{pred, b}]
		if cond == "" {
			continue
		}
		if acc == "" {
			acc = v.T
		} else {
			acc = ite(cond, v.T, acc)
		}
	}
	if acc == "" {
		fr.regs[x] = e.fresh(st, "phi", x.Type())
		return
	}
	e.setReg(fr, st, x, Val{T: acc})
}

// instrGo: the started goroutine is not followed, but if the function (or closure) it runs has a
// contract, its preconditions are obligations of the go statement - evaluated on the arguments, with
// the spawner's variables visible (a closure's contract speaks about the variables it captures under
// their names) and with an EMPTY set of held locks (a new goroutine holds none).
func (e *Exec) instrGo(fr *Frame, st *State, x *ssa.Go) {
	e.sc.used["go statements: the started goroutine is not followed; only its preconditions are checked where it is started"] = true
	cc := &x.Call
	// "atcall CALLEE requires" clauses speak about every place the callee is invoked, go statements included
	if afr := fr; true {
		for afr.fc == nil && afr.outer != nil {
			afr = afr.outer
		}
		if afr != fr && afr.fc != nil && len(afr.fc.AtCalls) > 0 {
			e.atCalls(afr, fr, st, cc, x.Pos())
		}
	}
	if fr.fc != nil && len(fr.fc.AtCalls) > 0 {
		e.atCalls(fr, fr, st, cc, x.Pos())
	}
	if cc.IsInvoke() {
		return
	}
	var fn *ssa.Function
	switch c := cc.Value.(type) {
	case *ssa.Function:
		fn = c
	case *ssa.MakeClosure:
		fn, _ = c.Fn.(*ssa.Function)
	}
	if fn == nil {
		return
	}
	fc := e.w.Contract[fullKeyOfFunc(fn)]
	if fc == nil || len(fc.Requires) == 0 {
		return
	}
	st2 := st.clone()
	e.hset(st2, "G_held", "((as const (Array Int Bool)) false)")
	env := e.specEnvAt(fr, st2)
	env.old = st2
	ps, _ := e.contractNames(fc, fn.Signature)
	for i, a := range cc.Args {
		if i < len(ps) {
			env.vars[ps[i]] = e.val(fr, st, a)
		}
	}
	env.oldVars = env.vars
	for _, c := range fc.Requires {
		f := e.specBool(env, c)
		e.sc.oblig(st.reach, f, fmt.Sprintf("%s#go-pre.%s.%s", e.unit, shortKey(fc.Key), c.Label)+e.siteSuffix("go-pre."+shortKey(fc.Key)+"."+c.Label), "pre", fmt.Sprintf("precondition of %s where it is started as a goroutine: %s", fc.Key, c.Text), e.pos(x.Pos()))
	}
}
