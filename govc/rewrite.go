package main

import (
	"regexp"
	"strings"
)

// rewriteSpec turns the contract surface syntax into a plain Go expression:
//
//	A ==> B            -> implies(A, B)        (right associative, lowest precedence)
//	A <==> B           -> iff(A, B)
//	forall i int :: P  -> forall(func(i int) bool { return P })   (extends to the end of the enclosing group)
//	exists i int :: P  -> exists(func(i int) bool { return P })
func rewriteSpec(s string) string {
	return rw(strings.TrimSpace(s))
}

var reQuant = regexp.MustCompile(`^(forall|exists)\s+([^:]+?)\s*::\s*(.*)$`)

func rw(s string) string {
	s = strings.TrimSpace(s)
	if s == "" {
		return s
	}
	// 1. rewrite inside top-level bracket groups
	var b strings.Builder
	inStr := byte(0)
	for i := 0; i < len(s); i++ {
		c := s[i]
		if inStr != 0 {
			b.WriteByte(c)
			if c == '\\' && i+1 < len(s) {
				i++
				b.WriteByte(s[i])
			} else if c == inStr {
				inStr = 0
			}
			continue
		}
		switch c {
		case '"', '\'', '`':
			inStr = c
			b.WriteByte(c)
		case '(', '[', '{':
			j := matchClose(s, i)
			if j < 0 {
				b.WriteString(s[i:])
				i = len(s)
				break
			}
			inner := s[i+1 : j]
			b.WriteByte(c)
			switch c {
			case '(':
				parts := splitTop(inner, ',')
				for k, p := range parts {
					if k > 0 {
						b.WriteString(", ")
					}
					b.WriteString(rw(p))
				}
			case '[':
				parts := splitTop(inner, ':')
				for k, p := range parts {
					if k > 0 {
						b.WriteString(":")
					}
					b.WriteString(rw(p))
				}
			case '{':
				parts := splitTop(inner, ';')
				for k, p := range parts {
					if k > 0 {
						b.WriteString("; ")
					}
					p = strings.TrimSpace(p)
					if strings.HasPrefix(p, "return ") {
						b.WriteString("return " + rw(p[7:]))
					} else {
						// composite literal elements
						es := splitTop(p, ',')
						for m, e := range es {
							if m > 0 {
								b.WriteString(", ")
							}
							b.WriteString(rw(e))
						}
					}
				}
			}
			b.WriteByte(s[j])
			i = j
		default:
			b.WriteByte(c)
		}
	}
	s = b.String()
	// 2. quantifier sugar at the head of this group
	if m := reQuant.FindStringSubmatch(s); m != nil && !strings.Contains(m[2], "(") {
		return m[1] + "(func(" + m[2] + ") bool { return " + rw(m[3]) + " })"
	}
	// 3. <==> and ==> at top level
	if i := findTop(s, "<==>"); i >= 0 {
		return "iff(" + rw(s[:i]) + ", " + rw(s[i+4:]) + ")"
	}
	if i := findTop(s, "==>"); i >= 0 {
		return "implies(" + rw(s[:i]) + ", " + rw(s[i+3:]) + ")"
	}
	return s
}

func matchClose(s string, i int) int {
	depth := 0
	inStr := byte(0)
	for j := i; j < len(s); j++ {
		c := s[j]
		if inStr != 0 {
			if c == '\\' {
				j++
			} else if c == inStr {
				inStr = 0
			}
			continue
		}
		switch c {
		case '"', '\'', '`':
			inStr = c
		case '(', '[', '{':
			depth++
		case ')', ']', '}':
			depth--
			if depth == 0 {
				return j
			}
		}
	}
	return -1
}

// findTop finds the first occurrence of tok at bracket depth 0 outside strings.
// For "==>" an occurrence that is part of "<==>" is skipped.
func findTop(s, tok string) int {
	depth := 0
	inStr := byte(0)
	for i := 0; i < len(s); i++ {
		c := s[i]
		if inStr != 0 {
			if c == '\\' {
				i++
			} else if c == inStr {
				inStr = 0
			}
			continue
		}
		switch c {
		case '"', '\'', '`':
			inStr = c
		case '(', '[', '{':
			depth++
		case ')', ']', '}':
			depth--
		default:
			if depth == 0 && strings.HasPrefix(s[i:], tok) {
				if tok == "==>" && i > 0 && s[i-1] == '<' {
					continue
				}
				return i
			}
		}
	}
	return -1
}
