package main

import (
	"fmt"
	"go/token"
	"go/types"

	"golang.org/x/tools/go/ssa"
)

// privateAlloc: a heap-allocated local (escaping only because closures capture it) whose address
// never leaves this function and the closures it calls directly. Such a variable cannot be changed
// by any callee or by foreign goroutines, so havocs ("modifies *", unknown calls) keep its value.
//
// The address may only be: loaded from, stored to, used by DebugRef, or bound into a closure that
// (a) uses the captured variable in the same restricted way and (b) is itself only ever called
// directly (possibly after being parked in a local variable) or deferred - never passed as an
// argument, started with go, stored elsewhere or converted.
func privateAlloc(a *ssa.Alloc) bool {
	return addrPrivate(a, map[ssa.Value]bool{})
}

func addrPrivate(v ssa.Value, seen map[ssa.Value]bool) bool {
	if seen[v] {
		return true
	}
	seen[v] = true
	refs := v.Referrers()
	if refs == nil {
		return false
	}
	for _, r := range *refs {
		switch x := r.(type) {
		case *ssa.DebugRef:
		case *ssa.UnOp:
			// load
		case *ssa.Store:
			if x.Val == v {
				return false
			}
		case *ssa.FieldAddr:
			if !addrPrivate(x, seen) {
				return false
			}
		case *ssa.MakeClosure:
			fn, _ := x.Fn.(*ssa.Function)
			if fn == nil {
				return false
			}
			for i, b := range x.Bindings {
				if b == v {
					if i >= len(fn.FreeVars) || !addrPrivate(fn.FreeVars[i], seen) {
						return false
					}
				}
			}
			if !closureOnlyCalled(x, seen) && !bindingsReadOnly(x, v) {
				return false
			}
		default:
			return false
		}
	}
	return true
}

// bindingsReadOnly: inside the closure, the free variables bound to v are only ever read (loaded,
// possibly through field/index addressing, or handed on to closures that only read them). Such a
// closure may run anywhere - started with go, stored, passed on - without being able to change the
// variable, so the variable keeps the value its owner last stored.
func bindingsReadOnly(mc *ssa.MakeClosure, v ssa.Value) bool {
	fn, _ := mc.Fn.(*ssa.Function)
	if fn == nil {
		return false
	}
	for i, b := range mc.Bindings {
		if b == v {
			if i >= len(fn.FreeVars) || !addrReadOnly(fn.FreeVars[i], map[ssa.Value]bool{}) {
				return false
			}
		}
	}
	return true
}

func addrReadOnly(v ssa.Value, seen map[ssa.Value]bool) bool {
	if seen[v] {
		return true
	}
	seen[v] = true
	refs := v.Referrers()
	if refs == nil {
		return false
	}
	for _, r := range *refs {
		switch x := r.(type) {
		case *ssa.DebugRef:
		case *ssa.UnOp:
			if x.Op != token.MUL {
				return false
			}
		case *ssa.MakeClosure:
			if !bindingsReadOnly(x, v) {
				return false
			}
		default:
			return false
		}
	}
	return true
}

// closureOnlyCalled: the closure value is only called / deferred, directly or through a local.
func closureOnlyCalled(v ssa.Value, seen map[ssa.Value]bool) bool {
	refs := v.Referrers()
	if refs == nil {
		return false
	}
	for _, r := range *refs {
		switch x := r.(type) {
		case *ssa.DebugRef:
		case *ssa.Call:
			if x.Call.Value != v || argIs(x.Call.Args, v) {
				return false
			}
		case *ssa.Defer:
			if x.Call.Value != v || argIs(x.Call.Args, v) {
				return false
			}
		case *ssa.Store:
			if x.Val != v {
				continue
			}
			p, ok := x.Addr.(*ssa.Alloc)
			if !ok {
				return false
			}
			// the local holding the closure: only stores to it and loads that are called
			prefs := p.Referrers()
			if prefs == nil {
				return false
			}
			for _, pr := range *prefs {
				switch y := pr.(type) {
				case *ssa.DebugRef:
				case *ssa.Store:
					if y.Val == p {
						return false
					}
				case *ssa.UnOp:
					if !closureOnlyCalled(y, seen) {
						return false
					}
				case *ssa.MakeClosure:
					// a closure capturing the variable that holds another closure (recursion): give up
					return false
				default:
					return false
				}
			}
		default:
			return false
		}
	}
	return true
}

func argIs(args []ssa.Value, v ssa.Value) bool {
	for _, a := range args {
		if a == v {
			return true
		}
	}
	return false
}

// syncHigherOrder: library functions that run a function argument synchronously, in place, and do
// not retain it (the models execute the closure inline).
var syncHigherOrder = map[string]bool{
	"(*go.etcd.io/bbolt.DB).View":    true,
	"(*go.etcd.io/bbolt.DB).Update":  true,
	"(*go.etcd.io/bbolt.Tx).ForEach": true,
	"(*sync.Once).Do":                true,
}

// sharedCellKey: a captured local whose address is only ever loaded from, stored to, or bound into
// closures that run in place (called directly, deferred, or handed to a synchronous higher-order
// library function) is modelled as one named cell shared by the function and those closures. The key
// is the same for the variable itself and for the free variables bound to it.
func sharedCellKey(v ssa.Value) (string, bool) {
	a := rootAlloc(v, 0)
	if a == nil || !a.Heap {
		return "", false
	}
	if !cellPrivate(a, map[ssa.Value]bool{}) {
		return "", false
	}
	return fmt.Sprintf("pc.%s.%s.%d", a.Parent().Name(), a.Comment, int(a.Pos())), true
}

// rootAlloc resolves a free variable to the variable it is bound to (unique creation site).
func rootAlloc(v ssa.Value, depth int) *ssa.Alloc {
	if depth > 8 {
		return nil
	}
	switch x := v.(type) {
	case *ssa.Alloc:
		return x
	case *ssa.FreeVar:
		fn := x.Parent()
		parent := fn.Parent()
		if parent == nil {
			return nil
		}
		idx := -1
		for i, fv := range fn.FreeVars {
			if fv == x {
				idx = i
			}
		}
		var found ssa.Value
		for _, b := range parent.Blocks {
			for _, in := range b.Instrs {
				if mc, ok := in.(*ssa.MakeClosure); ok && mc.Fn == fn {
					if idx < 0 || idx >= len(mc.Bindings) {
						return nil
					}
					if found != nil && found != mc.Bindings[idx] {
						return nil
					}
					found = mc.Bindings[idx]
				}
			}
		}
		if found == nil {
			return nil
		}
		return rootAlloc(found, depth+1)
	}
	return nil
}

func cellPrivate(v ssa.Value, seen map[ssa.Value]bool) bool {
	if seen[v] {
		return true
	}
	seen[v] = true
	refs := v.Referrers()
	if refs == nil {
		return false
	}
	for _, r := range *refs {
		switch x := r.(type) {
		case *ssa.DebugRef:
		case *ssa.UnOp:
		case *ssa.Store:
			if x.Val == v {
				return false
			}
		case *ssa.MakeClosure:
			fn, _ := x.Fn.(*ssa.Function)
			if fn == nil {
				return false
			}
			for i, b := range x.Bindings {
				if b == v {
					if i >= len(fn.FreeVars) || !cellPrivate(fn.FreeVars[i], seen) {
						return false
					}
				}
			}
			if !closureRunsInPlace(x) && !bindingsReadOnly(x, v) {
				return false
			}
		default:
			return false
		}
	}
	return true
}

// closureRunsInPlace: the closure value is only called, deferred, parked in a local that is only
// called, or passed to a synchronous higher-order library function.
func closureRunsInPlace(v ssa.Value) bool {
	refs := v.Referrers()
	if refs == nil {
		return false
	}
	for _, r := range *refs {
		switch x := r.(type) {
		case *ssa.DebugRef:
		case *ssa.Call:
			if x.Call.Value == v && !argIs(x.Call.Args, v) {
				continue
			}
			if f := x.Call.StaticCallee(); f != nil && syncHigherOrder[fullKeyOfFunc(f)] {
				continue
			}
			return false
		case *ssa.Defer:
			if x.Call.Value != v || argIs(x.Call.Args, v) {
				return false
			}
		case *ssa.Store:
			if x.Val != v {
				continue
			}
			p, ok := x.Addr.(*ssa.Alloc)
			if !ok {
				return false
			}
			prefs := p.Referrers()
			if prefs == nil {
				return false
			}
			for _, pr := range *prefs {
				switch y := pr.(type) {
				case *ssa.DebugRef:
				case *ssa.Store:
					if y.Val == p {
						return false
					}
				case *ssa.UnOp:
					if !closureRunsInPlace(y) {
						return false
					}
				default:
					return false
				}
			}
		default:
			return false
		}
	}
	return true
}

// cellsWritten: keys of the shared cells stored to by the given blocks of fn, or by any closure
// created or called there (transitively). unknown=true if some store target cannot be resolved.
func cellsWritten(fn *ssa.Function, blocks map[*ssa.BasicBlock]bool, out map[string]bool, seen map[*ssa.Function]bool, depth int) {
	if depth > 6 {
		return
	}
	for _, b := range fn.Blocks {
		if blocks != nil && !blocks[b] {
			continue
		}
		for _, in := range b.Instrs {
			switch x := in.(type) {
			case *ssa.Store:
				if k, ok := sharedCellKey(x.Addr); ok {
					out[k] = true
				}
			case *ssa.MakeClosure:
				if f, ok := x.Fn.(*ssa.Function); ok && !seen[f] {
					seen[f] = true
					cellsWritten(f, nil, out, seen, depth+1)
				}
			case ssa.CallInstruction:
				// a closure parked in a local and called here: its creation site is in this function or an
				// enclosing one; be conservative and scan every closure nested in the outermost function
				if x.Common().StaticCallee() == nil && !x.Common().IsInvoke() {
					root := fn
					for root.Parent() != nil {
						root = root.Parent()
					}
					var all func(f *ssa.Function)
					all = func(f *ssa.Function) {
						for _, af := range f.AnonFuncs {
							if !seen[af] {
								seen[af] = true
								cellsWritten(af, nil, out, seen, depth+1)
							}
							all(af)
						}
					}
					all(root)
				} else if f := x.Common().StaticCallee(); f != nil && f.Parent() != nil && !seen[f] {
					seen[f] = true
					cellsWritten(f, nil, out, seen, depth+1)
				}
			}
		}
	}
}

func sharedCell(a *ssa.Alloc) bool {
	_, ok := sharedCellKey(a)
	return ok
}

// bodyAcquires: the given blocks of fn (or code they run in place) call a lock acquisition
// (Lock, RLock, Cond.Wait) directly.
func (e *Exec) bodyAcquires(fn *ssa.Function, blocks map[*ssa.BasicBlock]bool, depth int) bool {
	if depth > 4 {
		return true
	}
	for _, b := range fn.Blocks {
		if blocks != nil && !blocks[b] {
			continue
		}
		for _, in := range b.Instrs {
			ci, ok := in.(ssa.CallInstruction)
			if !ok {
				continue
			}
			cc := ci.Common()
			name := ""
			if cc.IsInvoke() {
				name = cc.Method.Name()
				if rt, ok := cc.Value.Type().(*types.Named); ok && rt.Obj().Pkg() != nil && rt.Obj().Pkg().Path() == "sync" && (name == "Lock") {
					return true
				}
				continue
			}
			if f := cc.StaticCallee(); f != nil {
				if f.Pkg != nil && f.Pkg.Pkg.Path() == "sync" && (f.Name() == "Lock" || f.Name() == "RLock" || f.Name() == "Wait") {
					return true
				}
				if callee := e.inlineTarget(cc); callee != nil {
					if e.bodyAcquires(callee, nil, depth+1) {
						return true
					}
				}
			}
		}
	}
	return false
}

// constCapture: the variable a closure captures is assigned exactly once in the function that declares
// it (its initialisation, e.g. the spill of a parameter) and is only read everywhere else, including in
// every closure it is bound into. Nobody can change it after the closure exists, so a closure verified on
// its own may treat the captured cell as private: calls do not havoc it.
func constCapture(fv *ssa.FreeVar) bool {
	a := rootAlloc(fv, 0)
	if a == nil {
		return false
	}
	refs := a.Referrers()
	if refs == nil {
		return false
	}
	stores := 0
	for _, r := range *refs {
		switch x := r.(type) {
		case *ssa.DebugRef:
		case *ssa.UnOp:
			if x.Op != token.MUL {
				return false
			}
		case *ssa.Store:
			if x.Addr != a || x.Val == a {
				return false
			}
			stores++
		case *ssa.MakeClosure:
			if !bindingsReadOnly(x, a) {
				return false
			}
		default:
			return false
		}
	}
	return stores <= 1
}
