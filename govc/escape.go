package main

import (
	"golang.org/x/tools/go/ssa"
)

// privateAlloc: a heap-allocated local (escaping only because closures capture it) whose address
// never leaves this function and the closures it calls directly. Such a variable cannot be changed
// by any callee or by foreign goroutines, so havocs ("modifies *", unknown calls) keep its value.
//
// The address may only be: loaded from, stored to, used by DebugRef, or bound into a closure that
// (a) uses the captured variable in the same restricted way and (b) is itself only ever called
// directly (possibly after being parked in a local variable) or deferred - never passed as an
// argument, started with go, stored elsewhere or converted.
func privateAlloc(a *ssa.Alloc) bool {
	return addrPrivate(a, map[ssa.Value]bool{})
}

func addrPrivate(v ssa.Value, seen map[ssa.Value]bool) bool {
	if seen[v] {
		return true
	}
	seen[v] = true
	refs := v.Referrers()
	if refs == nil {
		return false
	}
	for _, r := range *refs {
		switch x := r.(type) {
		case *ssa.DebugRef:
		case *ssa.UnOp:
			// load
		case *ssa.Store:
			if x.Val == v {
				return false
			}
		case *ssa.FieldAddr:
			if !addrPrivate(x, seen) {
				return false
			}
		case *ssa.MakeClosure:
			fn, _ := x.Fn.(*ssa.Function)
			if fn == nil {
				return false
			}
			for i, b := range x.Bindings {
				if b == v {
					if i >= len(fn.FreeVars) || !addrPrivate(fn.FreeVars[i], seen) {
						return false
					}
				}
			}
			if !closureOnlyCalled(x, seen) {
				return false
			}
		default:
			return false
		}
	}
	return true
}

// closureOnlyCalled: the closure value is only called / deferred, directly or through a local.
func closureOnlyCalled(v ssa.Value, seen map[ssa.Value]bool) bool {
	refs := v.Referrers()
	if refs == nil {
		return false
	}
	for _, r := range *refs {
		switch x := r.(type) {
		case *ssa.DebugRef:
		case *ssa.Call:
			if x.Call.Value != v || argIs(x.Call.Args, v) {
				return false
			}
		case *ssa.Defer:
			if x.Call.Value != v || argIs(x.Call.Args, v) {
				return false
			}
		case *ssa.Store:
			if x.Val != v {
				continue
			}
			p, ok := x.Addr.(*ssa.Alloc)
			if !ok {
				return false
			}
			// the local holding the closure: only stores to it and loads that are called
			prefs := p.Referrers()
			if prefs == nil {
				return false
			}
			for _, pr := range *prefs {
				switch y := pr.(type) {
				case *ssa.DebugRef:
				case *ssa.Store:
					if y.Val == p {
						return false
					}
				case *ssa.UnOp:
					if !closureOnlyCalled(y, seen) {
						return false
					}
				case *ssa.MakeClosure:
					// a closure capturing the variable that holds another closure (recursion): give up
					return false
				default:
					return false
				}
			}
		default:
			return false
		}
	}
	return true
}

func argIs(args []ssa.Value, v ssa.Value) bool {
	for _, a := range args {
		if a == v {
			return true
		}
	}
	return false
}
