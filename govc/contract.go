package main

// Parsing of the //@ contract blocks that live in comment-only files
// (zz_contracts_verif.go, build tag verif) next to the code in /repo, and of
// the library contract files under /verif/contracts/lib.

import (
	"go/types"
	"fmt"
	"os"
	"regexp"
	"strings"
)

var undefinedAbbrev = regexp.MustCompile(`\$[A-Z][A-Z0-9_]+`)

// Clause is one requires/ensures/invariant/assert-like clause.
type Clause struct {
	Kind   string // requires | ensures | invariant | modifies | decreases
	Label  string // stable name used in obligation names and known-findings
	Text   string // original expression text
	Go     string // Go expression after rewriting ==>, forall sugar
	File   string
	Line   int
	RawMod string // modifies item that is not an expression: "heap:NAME" or "type:T.f"
	// filled after type checking of the generated ghost file
	fn *ghostFn
}

// FuncContract holds all clauses attached to one function.
type FuncContract struct {
	Key        string // e.g. "(*Obfuscator).obfuscate" or "MakeSession" or "parseExtensions$1"
	FullKey    string // with package path: "(*github.com/x/y.Obfuscator).obfuscate"
	PkgPath    string
	Requires   []*Clause
	Ensures    []*Clause
	Modifies   []string // raw items; nil => modifies nothing
	ModClauses []*Clause
	PNames     []string
	RNames     []string
	AtCalls    []AtCall
	Preserves  []*Clause
	RepInvs    []*Clause // see "repinv"
	ModAll     bool              // modifies *
	Loops      map[int][]*Clause // loop ordinal -> invariants
	LoopMods   map[int][]string  // loop ordinal -> extra havoc hints (unused mostly)
	Flags      map[string]string // inline, trusted, pure, nopanic, recovers, ...
	File       string
	Line       int
	fnRecvT    types.Type // receiver type of a library / interface method contract
}

// GhostDecl is a ghost function or lemma function given as Go source.
type GhostDecl struct {
	Kind string // ghost | lemma
	Name string
	Src  string // full Go source "func name(...) T { ... }"
	File string
	Line int
}

// PkgContracts is everything found for one package.
type PkgContracts struct {
	PkgPath  string
	Funcs    map[string]*FuncContract // by Key
	Ghosts   []*GhostDecl
	Guarded  []GuardDecl
	LockOrd  []string // lock class names, ascending
	Imports  []string // extra imports for the ghost file: `alias "path"`
	Axioms   []*Clause
	Shared   []string      // "T.f mode"
	LockInvs []LockInvDecl // monitor invariants over self
	PoolInvs []LockInvDecl // sync.Pool invariants over (x, self)
}

type AtCall struct {
	Callee string
	Clause *Clause
}

type LockInvDecl struct {
	Lock   string
	Clause *Clause
}

type GuardDecl struct {
	Lock   string   // e.g. "Stream.writingM"
	Fields []string // e.g. "Stream.writingFrame"
}

var reFuncHdr = regexp.MustCompile(`^func\s+(.+?)\s*$`)
var reLabel = regexp.MustCompile(`^([A-Za-z_][A-Za-z0-9_.\-]*):\s+(.*)$`)

// parseContractFile reads all //@ lines of a file.
func parseContractFile(path string, pkgPath string, pc *PkgContracts) error {
	data, err := os.ReadFile(path)
	if err != nil {
		return err
	}
	lines := strings.Split(string(data), "\n")
	var cur *FuncContract
	counts := map[string]int{}
	defines := map[string]string{}
	for i := 0; i < len(lines); i++ {
		ln := strings.TrimSpace(lines[i])
		if !strings.HasPrefix(ln, "//@") {
			continue
		}
		body := strings.TrimSpace(strings.TrimPrefix(ln, "//@"))
		if body == "" {
			continue
		}
		if strings.HasPrefix(body, "#") { // comment inside contract block
			continue
		}
		// continuation lines: a clause may continue on following "//@   ..." lines starting with "\"
		for i+1 < len(lines) {
			nx := strings.TrimSpace(lines[i+1])
			if strings.HasPrefix(nx, "//@") {
				nb := strings.TrimSpace(strings.TrimPrefix(nx, "//@"))
				if strings.HasPrefix(nb, "\\") {
					body += " " + strings.TrimSpace(strings.TrimPrefix(nb, "\\"))
					i++
					continue
				}
			}
			break
		}
		// textual abbreviations: "define NAME text" then $NAME in later lines of the same file
		for name, text := range defines {
			body = strings.ReplaceAll(body, "$"+name, text)
		}
		if m := undefinedAbbrev.FindString(body); m != "" && !strings.HasPrefix(strings.TrimSpace(body), "func ") && !strings.HasPrefix(strings.TrimSpace(body), "#") {
			return fmt.Errorf("%s:%d: abbreviation %s is used before (or without) its define", path, i+1, m)
		}
		word, rest := splitWord(body)
		switch word {
		case "define":
			name, text := splitWord(rest)
			if name == "" {
				return fmt.Errorf("%s:%d: define needs a name", path, i+1)
			}
			defines[name] = strings.TrimSpace(text)
		case "ghost", "lemma":
			// multi-line Go source until braces balance
			src := rest
			depth := strings.Count(src, "{") - strings.Count(src, "}")
			startLine := i + 1
			for depth > 0 && i+1 < len(lines) {
				i++
				nx := strings.TrimSpace(lines[i])
				nb := strings.TrimPrefix(nx, "//@")
				if strings.HasPrefix(nb, " ") {
					nb = nb[1:]
				}
				src += "\n" + nb
				depth += strings.Count(nb, "{") - strings.Count(nb, "}")
			}
			m := regexp.MustCompile(`^func\s+([A-Za-z_][A-Za-z0-9_]*)`).FindStringSubmatch(src)
			if m == nil {
				return fmt.Errorf("%s:%d: bad %s declaration", path, startLine, word)
			}
			pc.Ghosts = append(pc.Ghosts, &GhostDecl{Kind: word, Name: m[1], Src: rewriteGhostSrc(src), File: path, Line: startLine})
			cur = nil
		case "func":
			key := strings.TrimSpace(rest)
			cur = &FuncContract{Key: key, PkgPath: pkgPath, Loops: map[int][]*Clause{}, LoopMods: map[int][]string{}, Flags: map[string]string{}, File: path, Line: i + 1}
			cur.FullKey = fullKey(pkgPath, key)
			if _, dup := pc.Funcs[key]; dup {
				return fmt.Errorf("%s:%d: duplicate contract for %s", path, i+1, key)
			}
			pc.Funcs[key] = cur
			counts = map[string]int{}
		case "requires", "ensures", "repinv":
			if cur == nil {
				return fmt.Errorf("%s:%d: clause outside func block", path, i+1)
			}
			c := mkClause(word, rest, path, i+1, counts)
			switch word {
			case "requires":
				cur.Requires = append(cur.Requires, c)
			case "ensures":
				cur.Ensures = append(cur.Ensures, c)
			default:
				// repinv: representation invariant / abstraction of the implementing object, assumed (and
				// listed as an assumption) only when the method is checked against an interface contract
				cur.RepInvs = append(cur.RepInvs, c)
			}
		case "modifies":
			if cur == nil {
				return fmt.Errorf("%s:%d: clause outside func block", path, i+1)
			}
			if cur.Modifies == nil {
				cur.Modifies = []string{}
			}
			for _, it := range splitTop(rest, ',') {
				it = strings.TrimSpace(it)
				if it == "*" {
					cur.ModAll = true
				} else if it != "" && it != "nothing" {
					cur.Modifies = append(cur.Modifies, it)
					mc := &Clause{Kind: "modifies", Label: fmt.Sprintf("mod%d", len(cur.ModClauses)), Text: it, File: path, Line: i + 1}
					if strings.HasPrefix(it, "heap(") && strings.HasSuffix(it, ")") {
						mc.RawMod = "heap:" + it[5:len(it)-1]
					} else if it == "locks" {
						mc.RawMod = "heap:G_held"
					} else {
						mc.Go = "modtarget(" + rewriteSpec(it) + ")"
					}
					cur.ModClauses = append(cur.ModClauses, mc)
				}
			}
		case "preserves":
			// with "modifies *": these whole field maps (Type.field) are nevertheless left unchanged
			if cur == nil {
				return fmt.Errorf("%s:%d: clause outside func block", path, i+1)
			}
			for _, it := range splitTop(rest, ',') {
				it = strings.TrimSpace(it)
				if strings.HasPrefix(it, "heap(") && strings.HasSuffix(it, ")") {
					cur.Preserves = append(cur.Preserves, &Clause{Kind: "preserves", Text: it, RawMod: "heap:" + it[5:len(it)-1], File: path, Line: i + 1})
				} else if it != "" {
					cur.Preserves = append(cur.Preserves, &Clause{Kind: "preserves", Text: it, RawMod: "type:" + it, File: path, Line: i + 1})
				}
			}
		case "loop":
			if cur == nil {
				return fmt.Errorf("%s:%d: clause outside func block", path, i+1)
			}
			var ord int
			var kind string
			w2, r2 := splitWord(rest)
			fmt.Sscanf(w2, "%d", &ord)
			kind, r2 = splitWord(r2)
			switch kind {
			case "invariant":
				c := mkClause("invariant", r2, path, i+1, counts)
				c.Label = fmt.Sprintf("loop%d.%s", ord, c.Label)
				cur.Loops[ord] = append(cur.Loops[ord], c)
			case "step":
				// loop N step label: expr - holds at the end of every iteration; old(...) is the state at
				// the beginning of that iteration (a postcondition of the loop body)
				c := mkClause("step", r2, path, i+1, counts)
				c.Label = fmt.Sprintf("loop%d.%s", ord, c.Label)
				cur.Loops[ord] = append(cur.Loops[ord], c)
			case "modifies":
				cur.LoopMods[ord] = append(cur.LoopMods[ord], splitTop(r2, ',')...)
			case "complete":
				// loop N complete label: the loop is left only through its header (its range is exhausted or
				// its condition fails) - no return or break from inside the body: every element is processed
				lbl := strings.TrimSpace(r2)
				if lbl == "" {
					lbl = "complete"
				}
				cur.Flags[fmt.Sprintf("complete.%d", ord)] = lbl
			default:
				return fmt.Errorf("%s:%d: bad loop clause %q", path, i+1, kind)
			}
		case "atcall":
			// atcall <callee name> requires <clause>: obligation at every call of that callee inside this function
			if cur == nil {
				return fmt.Errorf("%s:%d: atcall outside func block", path, i+1)
			}
			callee, r2 := splitWord(rest)
			kw, r3 := splitWord(r2)
			if kw != "requires" {
				return fmt.Errorf("%s:%d: atcall needs 'requires'", path, i+1)
			}
			c := mkClause("atcall", r3, path, i+1, counts)
			cur.AtCalls = append(cur.AtCalls, AtCall{Callee: callee, Clause: c})
		case "flag":
			if cur == nil {
				return fmt.Errorf("%s:%d: flag outside func block", path, i+1)
			}
			for _, f := range strings.Fields(rest) {
				kv := strings.SplitN(f, "=", 2)
				if len(kv) == 2 {
					cur.Flags[kv[0]] = kv[1]
				} else {
					cur.Flags[kv[0]] = "true"
				}
			}
		case "guardedby":
			// guardedby Stream.writingM: Stream.writingFrame, ...
			parts := strings.SplitN(rest, ":", 2)
			if len(parts) != 2 {
				return fmt.Errorf("%s:%d: bad guardedby", path, i+1)
			}
			g := GuardDecl{Lock: strings.TrimSpace(parts[0])}
			for _, f := range strings.Split(parts[1], ",") {
				g.Fields = append(g.Fields, strings.TrimSpace(f))
			}
			pc.Guarded = append(pc.Guarded, g)
			cur = nil
		case "lockorder":
			for _, f := range strings.Split(rest, "<") {
				pc.LockOrd = append(pc.LockOrd, strings.TrimSpace(f))
			}
			cur = nil
		case "shared":
			pc.Shared = append(pc.Shared, rest)
			cur = nil
		case "lockinv", "poolinv":
			parts := strings.SplitN(rest, ":", 2)
			if len(parts) != 2 {
				return fmt.Errorf("%s:%d: bad %s", path, i+1, word)
			}
			c := mkClause(word, strings.TrimSpace(parts[1]), path, i+1, map[string]int{})
			if strings.HasPrefix(c.Label, word[:3]) {
				c.Label = fmt.Sprintf("%s.%s.%d", word, strings.TrimSpace(parts[0]), len(pc.LockInvs)+len(pc.PoolInvs))
			}
			d := LockInvDecl{Lock: strings.TrimSpace(parts[0]), Clause: c}
			if word == "lockinv" {
				pc.LockInvs = append(pc.LockInvs, d)
			} else {
				pc.PoolInvs = append(pc.PoolInvs, d)
			}
			cur = nil
		case "import":
			pc.Imports = append(pc.Imports, rest)
			cur = nil
		case "axiom":
			c := mkClause("axiom", rest, path, i+1, counts)
			pc.Axioms = append(pc.Axioms, c)
		default:
			return fmt.Errorf("%s:%d: unknown contract keyword %q", path, i+1, word)
		}
	}
	return nil
}

func mkClause(kind, rest, path string, line int, counts map[string]int) *Clause {
	label := ""
	if m := reLabel.FindStringSubmatch(rest); m != nil && !strings.Contains(m[1], ".") {
		// avoid treating "x.y: ..." as label; labels have no dots
		label, rest = m[1], m[2]
	}
	if label == "" {
		label = fmt.Sprintf("%s%d", kind[:3], counts[kind])
	}
	counts[kind]++
	return &Clause{Kind: kind, Label: label, Text: rest, Go: rewriteSpec(rest), File: path, Line: line}
}

func splitWord(s string) (string, string) {
	s = strings.TrimSpace(s)
	i := strings.IndexAny(s, " \t")
	if i < 0 {
		return s, ""
	}
	return s[:i], strings.TrimSpace(s[i+1:])
}

// fullKey turns "(*T).m" into "(*pkg.T).m", "(T).m" into "(pkg.T).m", "f" into "pkg.f".
func fullKey(pkgPath, key string) string {
	if strings.HasPrefix(key, "(") {
		end := strings.Index(key, ")")
		inner := key[1:end]
		rest := key[end+1:]
		if strings.Contains(inner, "/") || strings.Contains(inner, ".") {
			return key // already qualified (library contract)
		}
		if strings.HasPrefix(inner, "*") {
			return "(*" + pkgPath + "." + inner[1:] + ")" + rest
		}
		return "(" + pkgPath + "." + inner + ")" + rest
	}
	if strings.Contains(key, "/") || (strings.Contains(key, ".") && !strings.Contains(key, "$")) {
		return key
	}
	return pkgPath + "." + key
}

// splitTop splits s on sep occurring at bracket depth 0 (ignores strings/runes).
func splitTop(s string, sep byte) []string {
	var out []string
	depth := 0
	start := 0
	inStr := byte(0)
	for i := 0; i < len(s); i++ {
		c := s[i]
		if inStr != 0 {
			if c == '\\' {
				i++
			} else if c == inStr {
				inStr = 0
			}
			continue
		}
		switch c {
		case '"', '\'', '`':
			inStr = c
		case '(', '[', '{':
			depth++
		case ')', ']', '}':
			depth--
		default:
			if c == sep && depth == 0 {
				out = append(out, s[start:i])
				start = i + 1
			}
		}
	}
	out = append(out, s[start:])
	return out
}

var reOneLineRet = regexp.MustCompile(`^(.*\{\s*)return\s+(.*?)(\s*\}\s*)$`)

// rewriteGhostSrc applies the contract surface syntax (==>, forall x T :: ...) inside ghost/lemma
// function source: in "return E", "assert(E)" and "assume(E)".
func rewriteGhostSrc(src string) string {
	lines := strings.Split(src, "\n")
	for i, ln := range lines {
		t := strings.TrimSpace(ln)
		switch {
		case strings.HasPrefix(t, "return ") && !strings.HasSuffix(t, "{"):
			lines[i] = "return " + rewriteSpec(strings.TrimPrefix(t, "return "))
		case (strings.HasPrefix(t, "assert(") || strings.HasPrefix(t, "assume(")) && strings.HasSuffix(t, ")"):
			lines[i] = t[:7] + rewriteSpec(t[7:len(t)-1]) + ")"
		default:
			if m := reOneLineRet.FindStringSubmatch(ln); m != nil && strings.HasPrefix(strings.TrimSpace(m[1]), "func") {
				lines[i] = m[1] + "return " + rewriteSpec(m[2]) + m[3]
			}
		}
	}
	return strings.Join(lines, "\n")
}
