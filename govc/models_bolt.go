package main

// Assumed model of go.etcd.io/bbolt as used by internal/server/usermanager: a database is a
// partial map  bucket name -> (key -> byte string), kept in ghost state:
//
//	GD_has  : Str -> Bool                        bucket exists
//	GD_khas : Str -> Str -> Bool                 key present in bucket
//	GD_vlen : Str -> Str -> Int                  length of the stored value
//	GD_val  : Str -> Str -> (Array Int Int)      its bytes (index 0 = first)
//	GD_bname: Int -> Str                         name of the bucket a *bolt.Bucket handle denotes
//
// Names and keys are byte strings, represented by the uninterpreted sort Str through str_of_seq.
// DB.View / DB.Update run their closure in place, once (the handle is assumed open, so Begin
// succeeds); Update is transactional: if the closure or the commit fails, the database is unchanged.
// Errors of Put / CreateBucketIfNotExists / DeleteBucket are arbitrary (a superset of bbolt's), and an
// operation that reports an error has not changed anything.
// One database per verification unit (handles are not distinguished).

import (
	"fmt"
	"go/token"
	"go/types"
	"sort"
	"strings"

	"golang.org/x/tools/go/ssa"
)

const boltPkg = "go.etcd.io/bbolt"

func (e *Exec) dbMaps() (has, khas, vlen, val, bname string) {
	has = e.heapMap("GD_has", "(Array Str Bool)")
	khas = e.heapMap("GD_khas", "(Array Str (Array Str Bool))")
	vlen = e.heapMap("GD_vlen", "(Array Str (Array Str Int))")
	val = e.heapMap("GD_val", "(Array Str (Array Str (Array Int Int)))")
	bname = e.heapMap("GD_bname", "(Array Int Str)")
	e.heapMap("GU_dbputs", "(Array Int Int)")
	return
}

// choose: a fresh constant equal to a if c holds and to b otherwise, stated as two implications
// (cheaper for the solvers than nesting ite terms inside array reads).
func (e *Exec) choose(st *State, hint, sort, c, a, b string) string {
	n := e.sc.freshConst(hint, sort)
	e.sc.assume(st.reach, implies(c, eq(n, a)))
	e.sc.assume(st.reach, implies(not(c), eq(n, b)))
	return n
}

// hchoose: heap map m becomes a if c holds, stays b otherwise.
func (e *Exec) hchoose(st *State, m, c, a, b string) {
	st.heap[m] = e.choose(st, m, e.heapSort[m], c, a, b)
}

var dbHeapNames = []string{"GD_has", "GD_khas", "GD_vlen", "GD_val", "GD_bname"}

// strKey: the Str denoting the content of a byte slice; []byte("lit") round-trips to the literal.
func (e *Exec) strKey(st *State, s Val) string {
	e.sc.declFun("str_bytes", []string{"Str"}, "(Array Int Int)")
	t := e.strOfBytes(st, s.T)
	e.sc.axiom("str_bytes_roundtrip", "(forall ((s Str)) (! (= (str_of_seq (seq (str_bytes s) 0 (str_len s)) (str_len s)) s) :pattern ((str_bytes s))))")
	return t
}

func registerBoltModels() {
	errT := types.Universe.Lookup("error").Type()
	byteSlice := types.NewSlice(types.Typ[types.Byte])

	dbEff := func(e *Exec, cc *ssa.CallCommon) []string {
		e.dbMaps()
		return append(append([]string{}, dbHeapNames...), e.elemHeap(types.Typ[types.Byte]), "G_alloc")
	}

	// newBucket: a fresh handle for bucket `name`
	newBucket := func(e *Exec, st *State, name string) string {
		_, _, _, _, bname := e.dbMaps()
		ref := e.alloc(st)
		e.hset(st, bname, sto(e.hget(st, bname), ref, name))
		return ref
	}

	// ---- transactions ----
	runTx := func(update bool) modelFn {
		return func(e *Exec, fr *Frame, st *State, args []Val, cc *ssa.CallCommon, pos token.Pos) Val {
			e.dbMaps()
			e.sc.used["bbolt: the database handle is open (Begin succeeds); View/Update run the closure once, in place"] = true
			fnv := args[1]
			if fnv.Fn == nil {
				e.sc.uncontracted[fmt.Sprintf("bbolt transaction with a non-literal function at %s (everything havocked)", e.pos(pos))] = true
				e.havocAll(st)
				return e.fresh(st, "tx.err", errT)
			}
			before := map[string]string{}
			for _, n := range dbHeapNames[:4] {
				before[n] = e.hget(st, n)
			}
			tx := e.alloc(st)
			// inside Update the transaction is writable (ghost scalar read by the Put model)
			wr := e.heapMap("GD_writable", "Bool")
			savedWr := e.hget(st, wr)
			st.heap[wr] = fmt.Sprint(update)
			r := e.inlineCall(fr, st, fnv.Fn, fnv.Bind, []Val{{T: tx, Typ: fnv.Fn.Signature.Params().At(0).Type(), NonNil: true}}, pos)
			st.heap[wr] = savedWr
			if !update {
				return Val{T: r.T, Typ: errT}
			}
			commit := e.fresh(st, "commit.err", errT)
			res := ite(eq(r.T, "nil_iface"), commit.T, r.T)
			rn := e.sc.freshName("update.err")
			e.sc.define(rn, "Iface", res)
			ok := eq(rn, "nil_iface")
			for _, n := range dbHeapNames[:4] {
				cur := e.hget(st, n)
				if cur != before[n] {
					e.hchoose(st, n, ok, cur, before[n])
				}
			}
			e.sc.used["bbolt: Update is atomic - a failed closure or commit leaves the database unchanged"] = true
			return Val{T: rn, Typ: errT}
		}
	}
	models["(*"+boltPkg+".DB).View"] = runTx(false)
	models["(*"+boltPkg+".DB).Update"] = runTx(true)
	modelEffects["(*"+boltPkg+".DB).View"] = dbEff
	modelEffects["(*"+boltPkg+".DB).Update"] = dbEff

	// ---- Tx ----
	models["(*"+boltPkg+".Tx).Bucket"] = func(e *Exec, fr *Frame, st *State, args []Val, cc *ssa.CallCommon, pos token.Pos) Val {
		has, _, _, _, _ := e.dbMaps()
		name := e.strKey(st, args[1])
		ref := newBucket(e, st, name)
		return Val{T: e.choose(st, "bucket", "Int", sel(e.hget(st, has), name), ref, "0"), Typ: cc.Signature().Results().At(0).Type()}
	}
	models["(*"+boltPkg+".Tx).CreateBucketIfNotExists"] = func(e *Exec, fr *Frame, st *State, args []Val, cc *ssa.CallCommon, pos token.Pos) Val {
		has, khas, _, _, _ := e.dbMaps()
		name := e.strKey(st, args[1])
		er := e.fresh(st, "createbucket.err", errT)
		// bbolt: an empty name is refused
		e.sc.assume(st.reach, implies(eq("(s_len "+args[1].T+")", "0"), not(eq(er.T, "nil_iface"))))
		ok := eq(er.T, "nil_iface")
		oh, ok2 := e.hget(st, has), e.hget(st, khas)
		existed := sel(oh, name)
		e.hchoose(st, has, ok, sto(oh, name, "true"), oh)
		e.hchoose(st, khas, and(ok, not(existed)), sto(ok2, name, "((as const (Array Str Bool)) false)"), ok2)
		ref := newBucket(e, st, name)
		bt := cc.Signature().Results().At(0).Type()
		return Val{Typ: cc.Signature().Results(), Tuple: []Val{{T: e.choose(st, "bucket", "Int", ok, ref, "0"), Typ: bt}, er}}
	}
	models["(*"+boltPkg+".Tx).DeleteBucket"] = func(e *Exec, fr *Frame, st *State, args []Val, cc *ssa.CallCommon, pos token.Pos) Val {
		has, _, _, _, _ := e.dbMaps()
		name := e.strKey(st, args[1])
		er := e.fresh(st, "deletebucket.err", errT)
		oh := e.hget(st, has)
		// bbolt: ErrBucketNotFound when there is no such bucket
		e.sc.assume(st.reach, implies(not(sel(oh, name)), not(eq(er.T, "nil_iface"))))
		e.hchoose(st, has, eq(er.T, "nil_iface"), sto(oh, name, "false"), oh)
		return er
	}
	// ForEach(fn): fn runs for every bucket, an unknown number of times. Cut like a loop: the closure
	// is checked once from an arbitrary intermediate state (everything it can write havocked) on an
	// arbitrary existing bucket; afterwards everything it can write is unknown.
	models["(*"+boltPkg+".Tx).ForEach"] = func(e *Exec, fr *Frame, st *State, args []Val, cc *ssa.CallCommon, pos token.Pos) Val {
		has, _, _, _, _ := e.dbMaps()
		fnv := args[1]
		if fnv.Fn == nil {
			e.havocAll(st)
			return e.fresh(st, "foreach.err", errT)
		}
		nf := e.newFrame(fnv.Fn, false)
		blocks := map[*ssa.BasicBlock]bool{}
		for _, b := range fnv.Fn.Blocks {
			blocks[b] = true
		}
		ws, all := e.writeSet(nf, blocks)
		havoc := func() {
			if all {
				e.havocAll(st)
				return
			}
			for _, m := range ws {
				if m == "G_alloc" {
					old := e.hget(st, "G_alloc")
					n := e.hhavoc(st, m)
					e.sc.assume(st.reach, "(>= "+n+" "+old+")")
					continue
				}
				e.hhavoc(st, m)
			}
			// captured locals the callback stores to (shared cells, escape.go): unknown after an unknown
			// number of runs - in particular NOT the value one run leaves (there may have been none)
			written := map[string]bool{}
			cellsWritten(fnv.Fn, nil, written, map[*ssa.Function]bool{}, 0)
			var keys []string
			for k := range st.cells {
				if strings.HasPrefix(k, "pc.") && written[k] {
					keys = append(keys, k)
				}
			}
			sort.Strings(keys)
			for _, k := range keys {
				t := e.cellTypes[k]
				if t == nil {
					continue
				}
				n := e.sc.freshConst("fe."+k, e.sc.sortOf(t))
				st.cells[k] = n
				e.sc.assume(st.reach, e.sc.rangeFact(n, t))
				e.sc.assume(st.reach, e.allocFact(st, n, t))
			}
		}
		// the enclosing function's frame holds in the arbitrary intermediate state, is checked to be
		// kept by one run of the closure, and therefore holds afterwards
		frameFacts := func(assume bool) {
			if all {
				return
			}
			for _, m := range ws {
				f, ok := e.frameFormula(fr, st, m)
				if !ok {
					continue
				}
				if assume {
					e.sc.assume(st.reach, f)
				} else {
					e.sc.oblig(st.reach, f, fmt.Sprintf("%s#foreach-frame.%s", e.unit, m)+e.siteSuffix("foreach-frame."+m), "frame", "frame of "+m+" is kept by the ForEach callback", e.pos(pos))
				}
			}
		}
		havoc()
		frameFacts(true)
		uid := e.fresh(st, "foreach.name", byteSlice)
		name := e.strKey(st, uid)
		e.sc.assume(st.reach, sel(e.hget(st, has), name))
		b := newBucket(e, st, name)
		bt := fnv.Fn.Signature.Params().At(1).Type()
		e.inlineCall(fr, st, fnv.Fn, fnv.Bind, []Val{uid, {T: b, Typ: bt, NonNil: true}}, pos)
		frameFacts(false)
		havoc()
		frameFacts(true)
		e.sc.used["bbolt: Tx.ForEach is cut like a loop without invariant (closure checked on an arbitrary bucket from an arbitrary state)"] = true
		return e.fresh(st, "foreach.err", errT)
	}
	eff := func(names ...string) func(e *Exec, cc *ssa.CallCommon) []string {
		return func(e *Exec, cc *ssa.CallCommon) []string {
			e.dbMaps()
			out := []string{"G_alloc"}
			for _, n := range names {
				if n == "bytes" {
					n = e.elemHeap(types.Typ[types.Byte])
				}
				out = append(out, n)
			}
			return out
		}
	}
	modelEffects["(*"+boltPkg+".Tx).Bucket"] = eff("GD_bname")
	modelEffects["(*"+boltPkg+".Tx).CreateBucketIfNotExists"] = eff("GD_bname", "GD_has", "GD_khas")
	modelEffects["(*"+boltPkg+".Tx).DeleteBucket"] = eff("GD_has")
	modelEffects["(*"+boltPkg+".Tx).ForEach"] = dbEff
	modelEffects["(*"+boltPkg+".Bucket).Get"] = eff("bytes")
	modelEffects["(*"+boltPkg+".Bucket).Put"] = eff("GD_khas", "GD_vlen", "GD_val", "GU_dbputs")

	// ---- Bucket ----
	models["(*"+boltPkg+".Bucket).Get"] = func(e *Exec, fr *Frame, st *State, args []Val, cc *ssa.CallCommon, pos token.Pos) Val {
		_, khas, vlen, val, bname := e.dbMaps()
		name := sel(e.hget(st, bname), args[0].T)
		k := e.strKey(st, args[1])
		present := sel(sel(e.hget(st, khas), name), k)
		n := sel(sel(e.hget(st, vlen), name), k)
		content := e.sc.freshConst("get.R", "(Array Int Int)")
		e.sc.assume(st.reach, eq(content, sel(sel(e.hget(st, val), name), k)))
		e.sc.assume(st.reach, "(>= "+n+" 0)")
		q := e.sc.freshName("q.j")
		e.sc.assume(st.reach, fmt.Sprintf("(forall ((%s Int)) (! (and (<= 0 (select %s %s)) (<= (select %s %s) 255)) :pattern ((select %s %s))))", q, content, q, content, q, content, q))
		arr := e.alloc(st)
		m := e.elemHeap(types.Typ[types.Byte])
		e.hset(st, m, sto(e.hget(st, m), arr, content))
		sl := fmt.Sprintf("(mk_slice %s 0 %s %s)", arr, n, n)
		return Val{T: ite(present, sl, e.sc.zeroOf(byteSlice)), Typ: byteSlice}
	}
	models["(*"+boltPkg+".Bucket).Put"] = func(e *Exec, fr *Frame, st *State, args []Val, cc *ssa.CallCommon, pos token.Pos) Val {
		_, khas, vlen, val, bname := e.dbMaps()
		name := sel(e.hget(st, bname), args[0].T)
		k := e.strKey(st, args[1])
		er := e.fresh(st, "put.err", errT)
		ok := eq(er.T, "nil_iface")
		// bbolt: Put fails only in a read-only transaction, for a blank or oversized key, or an oversized value
		wr := e.hget(st, e.heapMap("GD_writable", "Bool"))
		kl, vl := "(s_len "+args[1].T+")", "(s_len "+args[2].T+")"
		e.sc.assume(st.reach, implies(and(wr, "(< 0 "+kl+")", "(<= "+kl+" 32768)", "(< "+vl+" 2147483646)"), ok))
		e.sc.used["bbolt: Bucket.Put fails only in a read-only transaction, for a blank/oversized key or an oversized value (documented)"] = true
		// ghost counter of successful Put calls per bucket name handle: ghostget("dbputs", 0)
		cnt := e.heapMap("GU_dbputs", "(Array Int Int)")
		e.hset(st, cnt, sto(e.hget(st, cnt), "0", fmt.Sprintf("(+ (select %s 0) (ite %s 1 0))", e.hget(st, cnt), ok)))
		content := e.seqOfSlice(st, args[2].T)
		ok1, ov, oc := e.hget(st, khas), e.hget(st, vlen), e.hget(st, val)
		e.hchoose(st, khas, ok, sto(ok1, name, sto(sel(ok1, name), k, "true")), ok1)
		e.hchoose(st, vlen, ok, sto(ov, name, sto(sel(ov, name), k, "(s_len "+args[2].T+")")), ov)
		e.hchoose(st, val, ok, sto(oc, name, sto(sel(oc, name), k, content)), oc)
		return er
	}
}
