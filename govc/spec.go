package main

// Translation of contract expressions (Go ASTs, type-checked in the generated
// ghost file) into SMT terms over a given pre-state / post-state pair.

import (
	"fmt"
	"go/ast"
	"go/constant"
	"go/token"
	"go/types"
	"math/big"
	"strings"
)

type SpecEnv struct {
	e       *Exec
	fr      *Frame
	st      *State
	old     *State
	vars    map[string]Val
	oldVars map[string]Val
	refs    map[string]string // struct-typed locals living at a ref
	bound   map[string]Val
	pkg     *Pkg
	rng     *rangeInfo
	results []Val
	inOld   bool
	inAcq   bool
	depth   int
}

type SVal struct {
	T     string
	Typ   types.Type
	Ref   string // struct or array living at this reference (lvalue)
	IsNil bool
	Old   bool // produced by old(): contents are to be read in the old heap
	Acq   bool // produced by acq(): contents are to be read in the acquisition snapshot
}

func (env *SpecEnv) heap() *State {
	if env.inOld && env.old != nil {
		return env.old
	}
	if env.inAcq && env.st.acq != nil {
		return env.st.acq
	}
	return env.st
}

// specBoolA translates a clause that is going to be ASSUMED: quantified facts are then emitted in
// both the relative (at) and the absolute (select) form to give the solver more ways to use them.
func (e *Exec) specBoolA(env *SpecEnv, c *Clause) string {
	saved := e.dual
	e.dual = true
	defer func() { e.dual = saved }()
	return e.specBool(env, c)
}

func (e *Exec) specBool(env *SpecEnv, c *Clause) string {
	if c.fn == nil || c.fn.Expr == nil {
		e.errorf("%s:%d: clause has no expression (not type-checked?)", c.File, c.Line)
		return "true"
	}
	saved := env.pkg
	env.pkg = c.fn.Pkg
	defer func() { env.pkg = saved }()
	v := e.sx(env, c.fn.Expr)
	return e.mat(env, v)
}

// mat materialises a spec value as an SMT term of its sort.
func (e *Exec) mat(env *SpecEnv, v SVal) string {
	if v.Ref != "" && v.T == "" {
		t := types.Unalias(v.Typ)
		if e.isModelStruct(t) {
			return e.loadStruct(env.heap(), v.Ref, t)
		}
		if at, ok := t.Underlying().(*types.Array); ok {
			return sel(e.hget(env.heap(), e.elemHeap(at.Elem())), v.Ref)
		}
	}
	if v.IsNil {
		return "0"
	}
	return v.T
}

func (e *Exec) specErr(env *SpecEnv, x ast.Node, format string, a ...interface{}) SVal {
	e.errorf("spec %s: %s", e.pos(x.Pos()), fmt.Sprintf(format, a...))
	return SVal{T: "true", Typ: types.Typ[types.Bool]}
}

// applyGhost evaluates a user ghost function (an expression function of a contract file) on argument
// expressions of the current environment; the body is evaluated in the ghost function's own package.
func (e *Exec) applyGhost(env *SpecEnv, n ast.Node, g *ghostFn, args []ast.Expr) SVal {
	if env.depth > 20 {
		return e.specErr(env, n, "ghost function recursion too deep")
	}
	nb := map[string]Val{}
	for k, v := range env.bound {
		nb[k] = v
	}
	for i, p := range g.Params {
		if i < len(args) {
			a := e.sx(env, args[i])
			at := a.Typ
			if a.IsNil {
				// type from the ghost function's signature
				if obj, ok := g.Pkg.Info.Defs[g.Decl.Name].(*types.Func); ok {
					at = obj.Type().(*types.Signature).Params().At(i).Type()
				}
				nb[p] = Val{T: e.sc.zeroOf(at), Typ: at}
				continue
			}
			nb[p] = Val{T: e.mat(env, a), Typ: at}
		}
	}
	savedB, savedP := env.bound, env.pkg
	env.bound, env.pkg = nb, g.Pkg
	env.depth++
	r := e.sx(env, g.Expr)
	r = SVal{T: e.mat(env, r), Typ: r.Typ}
	env.depth--
	env.bound, env.pkg = savedB, savedP
	return r
}

func (e *Exec) constSVal(v constant.Value, t types.Type) SVal {
	switch v.Kind() {
	case constant.Bool:
		if constant.BoolVal(v) {
			return SVal{T: "true", Typ: t}
		}
		return SVal{T: "false", Typ: t}
	case constant.String:
		return SVal{T: e.sc.strLit(constant.StringVal(v)), Typ: t}
	case constant.Int:
		bi, _ := new(big.Int).SetString(v.ExactString(), 10)
		if b, ok := t.Underlying().(*types.Basic); ok && b.Info()&types.IsFloat != 0 {
			return SVal{T: smtInt(bi) + ".0", Typ: t}
		}
		return SVal{T: smtInt(bi), Typ: t}
	case constant.Float:
		f, _ := constant.Float64Val(v)
		if b, ok := t.Underlying().(*types.Basic); ok && b.Info()&types.IsInteger != 0 {
			return SVal{T: fmt.Sprintf("%d", int64(f)), Typ: t}
		}
		return SVal{T: fmt.Sprintf("%f", f), Typ: t}
	}
	return SVal{T: "0", Typ: t}
}

func (e *Exec) sx(env *SpecEnv, x ast.Expr) SVal {
	info := env.pkg.Info
	if tv, ok := info.Types[x]; ok && tv.Value != nil {
		t := tv.Type
		if b, ok := t.(*types.Basic); ok && b.Info()&types.IsUntyped != 0 {
			t = types.Default(t)
		}
		return e.constSVal(tv.Value, t)
	}
	switch n := x.(type) {
	case *ast.ParenExpr:
		return e.sx(env, n.X)
	case *ast.Ident:
		return e.sxIdent(env, n)
	case *ast.SelectorExpr:
		return e.sxSelector(env, n)
	case *ast.StarExpr:
		p := e.sx(env, n.X)
		pt, ok := types.Unalias(p.Typ).Underlying().(*types.Pointer)
		if !ok {
			return e.specErr(env, x, "deref of non-pointer")
		}
		el := pt.Elem()
		if e.isModelStruct(el) || isArrayT(el) {
			return SVal{Typ: el, Ref: p.T}
		}
		return SVal{T: sel(e.hget(env.heap(), e.boxHeap(el)), p.T), Typ: el}
	case *ast.UnaryExpr:
		switch n.Op {
		case token.NOT:
			return SVal{T: not(e.mat(env, e.sx(env, n.X))), Typ: types.Typ[types.Bool]}
		case token.SUB:
			v := e.sx(env, n.X)
			return SVal{T: "(- " + e.mat(env, v) + ")", Typ: v.Typ}
		case token.AND:
			v := e.sx(env, n.X)
			if v.Ref != "" {
				return SVal{T: v.Ref, Typ: types.NewPointer(v.Typ)}
			}
			if l := e.sxAddr(env, n.X); l != nil {
				return SVal{T: e.locAddrTerm(l), Typ: types.NewPointer(v.Typ)}
			}
			return e.specErr(env, x, "address of non-lvalue")
		}
		return e.specErr(env, x, "unsupported unary %s", n.Op)
	case *ast.BinaryExpr:
		return e.sxBinary(env, n)
	case *ast.IndexExpr:
		return e.sxIndex(env, n)
	case *ast.SliceExpr:
		return e.sxSlice(env, n)
	case *ast.CallExpr:
		return e.sxCall(env, n)
	case *ast.TypeAssertExpr:
		v := e.sx(env, n.X)
		t := info.TypeOf(n.Type)
		// argN of an atcall clause is declared "any" in the contract text but bound to the actual,
		// statically typed argument: the assertion only restores the static type
		if v.Typ != nil {
			if _, isIface := types.Unalias(v.Typ).Underlying().(*types.Interface); !isIface {
				return SVal{T: v.T, Typ: v.Typ, Ref: v.Ref}
			}
		}
		if _, ok := types.Unalias(t).Underlying().(*types.Interface); ok {
			return SVal{T: v.T, Typ: t}
		}
		return SVal{T: e.unboxIface(t, v.T), Typ: t}
	case *ast.CompositeLit:
		return e.sxComposite(env, n)
	}
	return e.specErr(env, x, "unsupported expression %T", x)
}

func (e *Exec) sxIdent(env *SpecEnv, n *ast.Ident) SVal {
	info := env.pkg.Info
	if v, ok := env.bound[n.Name]; ok {
		return SVal{T: v.T, Typ: v.Typ}
	}
	switch n.Name {
	case "nil":
		return SVal{IsNil: true, T: "0", Typ: types.Typ[types.UntypedNil]}
	case "true":
		return SVal{T: "true", Typ: types.Typ[types.Bool]}
	case "false":
		return SVal{T: "false", Typ: types.Typ[types.Bool]}
	}
	obj := info.Uses[n]
	if v, ok := obj.(*types.Var); ok && v.Pkg() != nil && v.Parent() == v.Pkg().Scope() {
		return e.sxGlobal(env, v)
	}
	if env.inOld {
		if v, ok := env.oldVars[n.Name]; ok {
			if r, ok := env.refs[n.Name]; ok && (e.isModelStruct(v.Typ)) {
				return SVal{Typ: v.Typ, Ref: r}
			}
			return SVal{T: v.T, Typ: v.Typ}
		}
	}
	if r, ok := env.refs[n.Name]; ok {
		if v, ok := env.vars[n.Name]; ok {
			return SVal{Typ: v.Typ, Ref: r}
		}
	}
	if v, ok := env.vars[n.Name]; ok {
		return SVal{T: v.T, Typ: v.Typ}
	}
	return e.specErr(env, n, "unknown identifier %s", n.Name)
}

func (e *Exec) sxGlobal(env *SpecEnv, v *types.Var) SVal {
	t := v.Type()
	name := sanitize(v.Pkg().Name() + "." + v.Name())
	if isErrorType(t) {
		n := e.sc.declGlobalConst("gerr_"+name, "Iface")
		id := e.sc.typeTag(types.NewPointer(types.NewTuple(types.NewVar(0, nil, n, types.Typ[types.Int]))))
		e.sc.axiom("gerr:"+n, fmt.Sprintf("(and (= (i_val %s) (- 0 %s 1000000)) (not (= (i_typ %s) 0)))", n, id, n))
		return SVal{T: n, Typ: t}
	}
	if _, ok := t.Underlying().(*types.Pointer); ok && e.sc.isRepoPkg(v.Pkg()) {
		n := e.sc.declGlobalConst("gptr_"+name, "Int")
		e.sc.axiom("gptr:"+n, "(< "+n+" 0)")
		return SVal{T: n, Typ: t}
	}
	if e.isModelStruct(t) {
		n := e.sc.declGlobalConst("gref_"+name, "Int")
		return SVal{Typ: t, Ref: n}
	}
	m := e.heapMap("GV_"+name, e.sc.sortOf(t))
	return SVal{T: e.hget(env.heap(), m), Typ: t}
}

// fieldStep selects field i of a struct-typed spec value.
func (e *Exec) fieldStep(env *SpecEnv, v SVal, i int) SVal {
	t := types.Unalias(v.Typ)
	ref := ""
	var st types.Type
	if pt, ok := t.Underlying().(*types.Pointer); ok {
		ref = v.T
		st = pt.Elem()
	} else if v.Ref != "" {
		ref = v.Ref
		st = t
	} else {
		st = t
	}
	u, ok := types.Unalias(st).Underlying().(*types.Struct)
	if !ok {
		e.errorf("fieldStep on non-struct %s", st)
		return SVal{T: "0", Typ: types.Typ[types.Int]}
	}
	ft := u.Field(i).Type()
	if ref == "" {
		if e.sc.opaqueStruct(st) {
			e.errorf("field of opaque struct value %s", st)
			return SVal{T: e.sc.zeroOf(ft), Typ: ft}
		}
		return SVal{T: app(e.sc.accessor(st, i), v.T), Typ: ft}
	}
	if e.sc.opaqueStruct(st) {
		m := e.heapMap("F_"+structName(st)+"."+sanitize(u.Field(i).Name()), "(Array Int "+e.sc.sortOf(ft)+")")
		return SVal{T: sel(e.hget(env.heap(), m), ref), Typ: ft}
	}
	switch e.fieldKindOf(ft) {
	case fkScalar:
		return SVal{T: sel(e.hget(env.heap(), e.fieldMap(st, i)), ref), Typ: ft}
	default:
		return SVal{Typ: ft, Ref: app(e.embFun(st, i), ref)}
	}
}

func (e *Exec) sxSelector(env *SpecEnv, n *ast.SelectorExpr) SVal {
	info := env.pkg.Info
	if selInfo, ok := info.Selections[n]; ok {
		if selInfo.Kind() != types.FieldVal {
			return e.specErr(env, n, "method values are not supported in contracts")
		}
		v := e.sx(env, n.X)
		for _, i := range selInfo.Index() {
			v = e.fieldStep(env, v, i)
		}
		return v
	}
	// qualified identifier
	obj := info.Uses[n.Sel]
	switch o := obj.(type) {
	case *types.Var:
		return e.sxGlobal(env, o)
	case *types.Const:
		return e.constSVal(o.Val(), o.Type())
	}
	return e.specErr(env, n, "unsupported selector %s", n.Sel.Name)
}

// sxAddr computes the location of an lvalue expression (fields only).
func (e *Exec) sxAddr(env *SpecEnv, x ast.Expr) *Loc {
	info := env.pkg.Info
	switch n := x.(type) {
	case *ast.ParenExpr:
		return e.sxAddr(env, n.X)
	case *ast.SelectorExpr:
		selInfo, ok := info.Selections[n]
		if !ok || selInfo.Kind() != types.FieldVal {
			return nil
		}
		v := e.sx(env, n.X)
		idx := selInfo.Index()
		for _, i := range idx[:len(idx)-1] {
			v = e.fieldStep(env, v, i)
		}
		last := idx[len(idx)-1]
		t := types.Unalias(v.Typ)
		ref := v.Ref
		st := t
		if pt, ok := t.Underlying().(*types.Pointer); ok {
			ref, st = v.T, pt.Elem()
		}
		if ref == "" {
			return nil
		}
		u := types.Unalias(st).Underlying().(*types.Struct)
		ft := u.Field(last).Type()
		name := "F_" + structName(st) + "." + sanitize(u.Field(last).Name())
		m := e.heapMap(name, "(Array Int "+e.sc.sortOf(ft)+")")
		return &Loc{Kind: LField, Base: ref, Map: m, Typ: ft}
	}
	return nil
}

func (e *Exec) zeroFor(other SVal) string {
	return e.sc.zeroOf(other.Typ)
}

func (e *Exec) sxBinary(env *SpecEnv, n *ast.BinaryExpr) SVal {
	boolT := types.Typ[types.Bool]
	switch n.Op {
	case token.LAND:
		return SVal{T: and(e.mat(env, e.sx(env, n.X)), e.mat(env, e.sx(env, n.Y))), Typ: boolT}
	case token.LOR:
		return SVal{T: or(e.mat(env, e.sx(env, n.X)), e.mat(env, e.sx(env, n.Y))), Typ: boolT}
	}
	a, b := e.sx(env, n.X), e.sx(env, n.Y)
	if n.Op == token.EQL || n.Op == token.NEQ {
		var f string
		switch {
		case a.IsNil && b.IsNil:
			f = "true"
		case a.IsNil:
			f = e.isNilTerm(b)
		case b.IsNil:
			f = e.isNilTerm(a)
		default:
			f = eq(e.mat(env, a), e.mat(env, b))
		}
		if n.Op == token.NEQ {
			f = not(f)
		}
		return SVal{T: f, Typ: boolT}
	}
	rt := env.pkg.Info.TypeOf(n)
	if rt == nil {
		rt = a.Typ
	}
	if bt, ok := rt.(*types.Basic); ok && bt.Info()&types.IsUntyped != 0 {
		rt = types.Default(rt)
	}
	av := Val{T: e.mat(env, a), Typ: a.Typ}
	bv := Val{T: e.mat(env, b), Typ: b.Typ}
	if bt, ok := av.Typ.(*types.Basic); ok && bt.Info()&types.IsUntyped != 0 {
		av.Typ = bv.Typ
	}
	if bt, ok := bv.Typ.(*types.Basic); ok && bt.Info()&types.IsUntyped != 0 {
		bv.Typ = av.Typ
	}
	specFr := &Frame{fc: &FuncContract{Flags: map[string]string{"nosafety": "1"}}, blockNN: map[string]bool{}}
	dummy := &State{reach: "false", heap: map[string]string{}, cells: map[string]string{}}
	t := e.binopSpec(specFr, dummy, n.Op, av, bv, rt)
	return SVal{T: t, Typ: rt}
}

// binopSpec: as binop, but arithmetic in contracts is mathematical (no wrap-around) for + - *,
// so that specifications state the intended value and overflow in the code shows up as a mismatch.
func (e *Exec) binopSpec(fr *Frame, st *State, op token.Token, x, y Val, rt types.Type) string {
	if b, ok := types.Unalias(x.Typ).Underlying().(*types.Basic); ok && b.Info()&types.IsInteger != 0 {
		switch op {
		case token.ADD:
			return app("+", x.T, y.T)
		case token.SUB:
			return app("-", x.T, y.T)
		case token.MUL:
			return app("*", x.T, y.T)
		case token.QUO:
			return e.tdiv(x.T, y.T)
		case token.REM:
			return fmt.Sprintf("(- %s (* %s %s))", x.T, y.T, e.tdiv(x.T, y.T))
		}
	}
	return e.binop(fr, st, op, x, y, rt, token.NoPos)
}

func (e *Exec) isNilTerm(v SVal) string {
	switch types.Unalias(v.Typ).Underlying().(type) {
	case *types.Slice:
		return "(= (s_arr " + v.T + ") 0)"
	case *types.Interface:
		return "(= " + v.T + " nil_iface)"
	}
	return "(= " + v.T + " 0)"
}

func (e *Exec) sxIndex(env *SpecEnv, n *ast.IndexExpr) SVal {
	info := env.pkg.Info
	x := e.sx(env, n.X)
	i := e.sx(env, n.Index)
	it := e.mat(env, i)
	switch t := types.Unalias(x.Typ).Underlying().(type) {
	case *types.Slice:
		el := t.Elem()
		hh := env.heap()
		if x.Old && env.old != nil {
			hh = env.old
		}
		if x.Acq && env.st.acq != nil {
			hh = env.st.acq
		}
		return SVal{T: e.at(el, sel(e.hget(hh, e.elemHeap(el)), "(s_arr "+x.T+")"), "(s_off "+x.T+")", it), Typ: el}
	case *types.Array:
		if x.Ref != "" {
			return SVal{T: sel(sel(e.hget(env.heap(), e.elemHeap(t.Elem())), x.Ref), it), Typ: t.Elem()}
		}
		return SVal{T: sel(x.T, it), Typ: t.Elem()}
	case *types.Pointer:
		if at, ok := t.Elem().Underlying().(*types.Array); ok {
			return SVal{T: sel(sel(e.hget(env.heap(), e.elemHeap(at.Elem())), x.T), it), Typ: at.Elem()}
		}
	case *types.Map:
		mv, md, _ := e.mapHeaps(t)
		h := env.heap()
		return SVal{T: ite(sel(sel(e.hget(h, md), x.T), it), sel(sel(e.hget(h, mv), x.T), it), e.sc.zeroOf(t.Elem())), Typ: t.Elem()}
	case *types.Basic:
		e.sc.declFun("str_at", []string{"Str", "Int"}, "Int")
		return SVal{T: app("str_at", x.T, it), Typ: types.Typ[types.Byte]}
	}
	_ = info
	return e.specErr(env, n, "unsupported index on %s", x.Typ)
}

func (e *Exec) sxSlice(env *SpecEnv, n *ast.SliceExpr) SVal {
	x := e.sx(env, n.X)
	lo := "0"
	if n.Low != nil {
		lo = e.mat(env, e.sx(env, n.Low))
	}
	switch t := types.Unalias(x.Typ).Underlying().(type) {
	case *types.Slice:
		hi := "(s_len " + x.T + ")"
		if n.High != nil {
			hi = e.mat(env, e.sx(env, n.High))
		}
		mx := "(s_cap " + x.T + ")"
		if n.Max != nil {
			mx = e.mat(env, e.sx(env, n.Max))
		}
		return SVal{T: fmt.Sprintf("(mk_slice (s_arr %s) (+ (s_off %s) %s) (- %s %s) (- %s %s))", x.T, x.T, lo, hi, lo, mx, lo), Typ: x.Typ}
	case *types.Array:
		hi := fmt.Sprint(t.Len())
		if n.High != nil {
			hi = e.mat(env, e.sx(env, n.High))
		}
		if x.Ref == "" {
			return e.specErr(env, n, "slicing an array value (not addressable)")
		}
		return SVal{T: fmt.Sprintf("(mk_slice %s %s (- %s %s) (- %d %s))", x.Ref, lo, hi, lo, t.Len(), lo), Typ: types.NewSlice(t.Elem())}
	case *types.Basic:
		hi := "(str_len " + x.T + ")"
		if n.High != nil {
			hi = e.mat(env, e.sx(env, n.High))
		}
		e.sc.declFun("str_sub", []string{"Str", "Int", "Int"}, "Str")
		return SVal{T: app("str_sub", x.T, lo, hi), Typ: x.Typ}
	}
	return e.specErr(env, n, "unsupported slice of %s", x.Typ)
}

func (e *Exec) sxComposite(env *SpecEnv, n *ast.CompositeLit) SVal {
	t := env.pkg.Info.TypeOf(n)
	switch u := types.Unalias(t).Underlying().(type) {
	case *types.Array:
		term := e.sc.zeroOf(t)
		for i, el := range n.Elts {
			if kv, ok := el.(*ast.KeyValueExpr); ok {
				k := e.mat(env, e.sx(env, kv.Key))
				term = sto(term, k, e.mat(env, e.sx(env, kv.Value)))
			} else {
				term = sto(term, fmt.Sprint(i), e.mat(env, e.sx(env, el)))
			}
		}
		_ = u
		return SVal{T: term, Typ: t}
	case *types.Struct:
		if e.sc.opaqueStruct(t) {
			break
		}
		vals := make([]string, u.NumFields())
		for i := range vals {
			vals[i] = e.sc.zeroOf(u.Field(i).Type())
		}
		for i, el := range n.Elts {
			if kv, ok := el.(*ast.KeyValueExpr); ok {
				name := kv.Key.(*ast.Ident).Name
				for j := 0; j < u.NumFields(); j++ {
					if u.Field(j).Name() == name {
						vals[j] = e.mat(env, e.sx(env, kv.Value))
					}
				}
			} else {
				vals[i] = e.mat(env, e.sx(env, el))
			}
		}
		nm := e.sc.sortOf(t)
		if len(vals) == 0 {
			return SVal{T: "mk_" + nm, Typ: t}
		}
		return SVal{T: fmt.Sprintf("(mk_%s %s)", nm, strings.Join(vals, " ")), Typ: t}
	}
	return e.specErr(env, n, "unsupported composite literal of %s", t)
}

func (e *Exec) lockID(env *SpecEnv, x ast.Expr) string {
	t := env.pkg.Info.TypeOf(x)
	if t != nil {
		if nt, ok := types.Unalias(t).(*types.Named); ok && nt.Obj().Pkg() != nil && nt.Obj().Pkg().Path() == "sync" && (nt.Obj().Name() == "Mutex" || nt.Obj().Name() == "RWMutex") {
			if l := e.sxAddr(env, x); l != nil {
				return e.locAddrTerm(l)
			}
		}
	}
	v := e.sx(env, x)
	switch types.Unalias(v.Typ).Underlying().(type) {
	case *types.Interface:
		return "(i_val " + v.T + ")"
	}
	return v.T
}

func (e *Exec) toIntArg(env *SpecEnv, v SVal) (string, string) {
	t := e.mat(env, v)
	srt := e.sc.sortOf(v.Typ)
	if v.IsNil {
		return "0", "Int"
	}
	switch srt {
	case "Iface":
		return "(i_val " + t + ")", "Int"
	}
	return t, srt
}

func (e *Exec) sxCall(env *SpecEnv, n *ast.CallExpr) SVal {
	info := env.pkg.Info
	boolT := types.Typ[types.Bool]
	intT := types.Typ[types.Int]
	// conversions
	if tv, ok := info.Types[n.Fun]; ok && tv.IsType() {
		v := e.sx(env, n.Args[0])
		if v.IsNil {
			return SVal{T: e.sc.zeroOf(tv.Type), Typ: tv.Type}
		}
		st := env.heap()
		return SVal{T: e.convert(st, Val{T: e.mat(env, v), Typ: v.Typ}, tv.Type), Typ: tv.Type}
	}
	fun := n.Fun
	var typeArg types.Type
	if ix, ok := fun.(*ast.IndexExpr); ok {
		fun = ix.X
		typeArg = info.TypeOf(ix.Index)
	}
	id, _ := fun.(*ast.Ident)
	name := ""
	if id != nil {
		name = id.Name
	}
	switch name {
	case "len", "cap":
		v := e.sx(env, n.Args[0])
		switch t := types.Unalias(v.Typ).Underlying().(type) {
		case *types.Slice:
			if name == "len" {
				return SVal{T: "(s_len " + v.T + ")", Typ: intT}
			}
			return SVal{T: "(s_cap " + v.T + ")", Typ: intT}
		case *types.Array:
			return SVal{T: fmt.Sprint(t.Len()), Typ: intT}
		case *types.Basic:
			return SVal{T: "(str_len " + v.T + ")", Typ: intT}
		case *types.Map:
			_, _, mc := e.mapHeaps(t)
			return SVal{T: sel(e.hget(env.heap(), mc), v.T), Typ: intT}
		case *types.Pointer:
			if at, ok := t.Elem().Underlying().(*types.Array); ok {
				return SVal{T: fmt.Sprint(at.Len()), Typ: intT}
			}
		}
		return e.specErr(env, n, "len of %s", v.Typ)
	case "old":
		saved := env.inOld
		env.inOld = true
		v := e.sx(env, n.Args[0])
		if v.Ref != "" && v.T == "" {
			v = SVal{T: e.mat(env, v), Typ: v.Typ}
		}
		env.inOld = saved
		v.Old = true
		return v
	case "acq":
		// acq(e): e evaluated in the state found at the most recent lock acquisition of this activation
		saved := env.inAcq
		env.inAcq = true
		v := e.sx(env, n.Args[0])
		if v.Ref != "" && v.T == "" {
			v = SVal{T: e.mat(env, v), Typ: v.Typ}
		}
		env.inAcq = saved
		v.Acq = true
		return v
	case "implies":
		return SVal{T: implies(e.mat(env, e.sx(env, n.Args[0])), e.mat(env, e.sx(env, n.Args[1]))), Typ: boolT}
	case "iff":
		return SVal{T: eq(e.mat(env, e.sx(env, n.Args[0])), e.mat(env, e.sx(env, n.Args[1]))), Typ: boolT}
	case "forall", "exists":
		fl, ok := n.Args[0].(*ast.FuncLit)
		if !ok {
			return e.specErr(env, n, "%s needs a function literal", name)
		}
		saved := env.bound
		nb := map[string]Val{}
		for k, v := range saved {
			nb[k] = v
		}
		var decls, ranges []string
		for _, f := range fl.Type.Params.List {
			t := info.TypeOf(f.Type)
			for _, nm := range f.Names {
				bn := e.sc.freshName("q." + nm.Name)
				nb[nm.Name] = Val{T: bn, Typ: t}
				decls = append(decls, fmt.Sprintf("(%s %s)", bn, e.sc.sortOf(t)))
				if rf := e.sc.rangeFact(bn, t); rf != "true" {
					if _, isInt := t.Underlying().(*types.Basic); isInt && t != types.Typ[types.Int] {
						ranges = append(ranges, rf)
					}
				}
			}
		}
		env.bound = nb
		var body string
		if len(fl.Body.List) == 1 {
			if rs, ok := fl.Body.List[0].(*ast.ReturnStmt); ok && len(rs.Results) == 1 {
				body = e.mat(env, e.sx(env, rs.Results[0]))
			}
		}
		env.bound = saved
		if body == "" {
			return e.specErr(env, n, "quantifier body must be a single return")
		}
		if name == "forall" {
			f := fmt.Sprintf("(forall (%s) %s)", strings.Join(decls, " "), implies(and(ranges...), body))
			if len(decls) == 1 && e.dual {
				// equivalent second form over the absolute array index, so that the quantifier is also
				// triggered by plain (select array index) terms: i := q - off
				bn := strings.Fields(strings.Trim(decls[0], "()"))[0]
				if alt := absoluteForm(bn, implies(and(ranges...), body)); alt != "" {
					f = and(f, alt)
				}
			}
			return SVal{T: f, Typ: boolT}
		}
		return SVal{T: fmt.Sprintf("(exists (%s) %s)", strings.Join(decls, " "), and(append(ranges, body)...)), Typ: boolT}
	case "held":
		id := e.lockID(env, n.Args[0])
		if l := e.sxAddr(env, n.Args[0]); l != nil && len(env.bound) == 0 {
			cls := strings.TrimPrefix(l.Map, "F_")
			if _, known := e.w.discipline().classes[cls]; !known {
				cls = e.specProv(env, n.Args[0])
			}
			if lc, ok := e.w.discipline().classes[cls]; ok && lc.Rank > 0 {
				// the class of a mutex field is a static fact about its address
				e.sc.assume("true", fmt.Sprintf("(= (%s %s) %d)", e.lockclassFun(), id, lc.Rank))
			}
		}
		return SVal{T: sel(e.hget(env.heap(), "G_held"), id), Typ: boolT}
	case "holdsAsAtEntry":
		// holdsAsAtEntry(): the set of held locks is what it was when the function was entered
		if env.old == nil {
			return e.specErr(env, n, "holdsAsAtEntry needs an entry state")
		}
		return SVal{T: eq(e.hget(env.heap(), "G_held"), e.hget(env.old, "G_held")), Typ: boolT}
	case "holdsEntryPlus":
		// holdsEntryPlus(m): the locks held at entry plus m
		id := e.lockID(env, n.Args[0])
		return SVal{T: fmt.Sprintf("(= %s (store %s %s true))", e.hget(env.heap(), "G_held"), e.hget(env.old, "G_held"), id), Typ: boolT}
	case "holdsOnly":
		id := e.lockID(env, n.Args[0])
		return SVal{T: fmt.Sprintf("(= %s (store ((as const (Array Int Bool)) false) %s true))", e.hget(env.heap(), "G_held"), id), Typ: boolT}
	case "locksBelow":
		// locksBelow(m): every lock this goroutine holds is lower in the declared order than m's class
		cls := ""
		if l := e.sxAddr(env, n.Args[0]); l != nil {
			cls = strings.TrimPrefix(l.Map, "F_")
		}
		if _, known := e.w.discipline().classes[cls]; !known {
			// a lock reached through a library struct (p.rwCond.L): its class is the access path from the
			// repository struct, as in the lockorder declaration
			if p := e.specProv(env, n.Args[0]); p != "" {
				cls = p
			}
		}
		lc, ok := e.w.discipline().classes[cls]
		if !ok || lc.Rank == 0 {
			return e.specErr(env, n, "locksBelow: lock class %q has no declared rank", cls)
		}
		f := e.lockclassFun()
		q := e.sc.freshName("q.l")
		return SVal{T: fmt.Sprintf("(forall ((%s Int)) (=> (select %s %s) (< (%s %s) %d)))", q, e.hget(env.heap(), "G_held"), q, f, q, lc.Rank), Typ: boolT}
	case "heldx":
		id := e.lockID(env, n.Args[0])
		hx := e.heapMap("G_heldx", "(Array Int Bool)")
		return SVal{T: and(sel(e.hget(env.heap(), "G_held"), id), sel(e.hget(env.heap(), hx), id)), Typ: boolT}
	case "holdsNone":
		return SVal{T: fmt.Sprintf("(= %s ((as const (Array Int Bool)) false))", e.hget(env.heap(), "G_held")), Typ: boolT}
	case "lockOf":
		return SVal{T: e.lockID(env, n.Args[0]), Typ: intT}
	case "deadlineArmed":
		c, _ := e.toIntArg(env, e.sx(env, n.Args[0]))
		m := e.heapMap("G_rdeadline", "(Array Int Int)")
		return SVal{T: "(not (= " + sel(e.hget(env.heap(), m), c) + " time_zero))", Typ: boolT}
	case "inpos", "outlen", "outwrites", "rdeadline":
		c, _ := e.toIntArg(env, e.sx(env, n.Args[0]))
		m := e.heapMap("G_"+name, "(Array Int Int)")
		return SVal{T: sel(e.hget(env.heap(), m), c), Typ: intT}
	case "closedconn":
		c, _ := e.toIntArg(env, e.sx(env, n.Args[0]))
		m := e.heapMap("G_closedconn", "(Array Int Bool)")
		return SVal{T: sel(e.hget(env.heap(), m), c), Typ: boolT}
	case "inbyte", "outbyte":
		c, _ := e.toIntArg(env, e.sx(env, n.Args[0]))
		i := e.mat(env, e.sx(env, n.Args[1]))
		m := e.heapMap("G_"+strings.TrimSuffix(name, "byte"), "(Array Int (Array Int Int))")
		return SVal{T: sel(sel(e.hget(env.heap(), m), c), i), Typ: types.Typ[types.Byte]}
	case "fresh":
		v := e.sx(env, n.Args[0])
		t, _ := e.toIntArg(env, v)
		if _, ok := types.Unalias(v.Typ).Underlying().(*types.Slice); ok {
			t = "(s_arr " + v.T + ")"
		}
		oldA := e.hget(env.old, "G_alloc")
		newA := e.hget(env.st, "G_alloc")
		return SVal{T: fmt.Sprintf("(and (> %s %s) (<= %s %s))", t, oldA, t, newA), Typ: boolT}
	case "allocated":
		v := e.sx(env, n.Args[0])
		t, _ := e.toIntArg(env, v)
		if _, ok := types.Unalias(v.Typ).Underlying().(*types.Slice); ok {
			t = "(s_arr " + v.T + ")"
		}
		return SVal{T: fmt.Sprintf("(<= %s %s)", t, e.hget(env.heap(), "G_alloc")), Typ: boolT}
	case "typeIs":
		v := e.sx(env, n.Args[0])
		return SVal{T: fmt.Sprintf("(= (i_typ %s) %s)", v.T, e.sc.typeTag(typeArg)), Typ: boolT}
	case "nonnil":
		v := e.sx(env, n.Args[0])
		return SVal{T: not(e.isNilTerm(v)), Typ: boolT}
	case "sameSlice":
		a, b := e.sx(env, n.Args[0]), e.sx(env, n.Args[1])
		return SVal{T: eq(a.T, b.T), Typ: boolT}
	case "offsetIn":
		// offsetIn(p, buf): where p starts relative to buf (meaningful when both share a backing array)
		a, b := e.sx(env, n.Args[0]), e.sx(env, n.Args[1])
		return SVal{T: fmt.Sprintf("(- (s_off %s) (s_off %s))", a.T, b.T), Typ: intT}
	case "aliases":
		// aliases(p, buf, off): p starts at buf[off] in the same backing array
		a, b := e.sx(env, n.Args[0]), e.sx(env, n.Args[1])
		off := e.mat(env, e.sx(env, n.Args[2]))
		return SVal{T: fmt.Sprintf("(and (= (s_arr %s) (s_arr %s)) (= (s_off %s) (+ (s_off %s) %s)))", a.T, b.T, a.T, b.T, off), Typ: boolT}
	case "disjoint":
		a, b := e.sx(env, n.Args[0]), e.sx(env, n.Args[1])
		return SVal{T: fmt.Sprintf("(or (not (= (s_arr %s) (s_arr %s))) (<= (+ (s_off %s) (s_cap %s)) (s_off %s)) (<= (+ (s_off %s) (s_cap %s)) (s_off %s)))", a.T, b.T, a.T, a.T, b.T, b.T, b.T, a.T), Typ: boolT}
	case "bytesEq":
		// bytesEq(a, b): same length and same content (position independent)
		a, b := e.sx(env, n.Args[0]), e.sx(env, n.Args[1])
		return SVal{T: e.bytesEqTerm(env, a, b), Typ: boolT}
	case "mapHas":
		m := e.sx(env, n.Args[0])
		k := e.mat(env, e.sx(env, n.Args[1]))
		mt := types.Unalias(m.Typ).Underlying().(*types.Map)
		_, md, _ := e.mapHeaps(mt)
		return SVal{T: sel(sel(e.hget(env.heap(), md), m.T), k), Typ: boolT}
	case "mapLen":
		m := e.sx(env, n.Args[0])
		mt := types.Unalias(m.Typ).Underlying().(*types.Map)
		_, _, mc := e.mapHeaps(mt)
		return SVal{T: sel(e.hget(env.heap(), mc), m.T), Typ: intT}
	case "visited":
		if env.rng == nil {
			return e.specErr(env, n, "visited() outside a map-range loop invariant")
		}
		k := e.mat(env, e.sx(env, n.Args[0]))
		return SVal{T: sel(e.hget(env.st, env.rng.visited), k), Typ: boolT}
	case "uf", "ufb", "ufbytes", "uf8":
		lit, ok := n.Args[0].(*ast.BasicLit)
		if !ok {
			return e.specErr(env, n, "uf name must be a string literal")
		}
		fname := "uf_" + sanitize(strings.Trim(lit.Value, "\""))
		if strings.HasPrefix(fname, "uf_aead_") || fname == "uf_bxor" || fname == "uf_salsa_ks" {
			e.cryptoDecls() // the axioms about these functions belong to every unit that mentions them
		}
		rest := n.Args[1:]
		var idx string
		if name == "ufbytes" {
			idx = e.mat(env, e.sx(env, rest[0]))
			rest = rest[1:]
		}
		var args, sorts []string
		for _, a := range rest {
			v := e.sx(env, a)
			if _, isSlice := types.Unalias(v.Typ).Underlying().(*types.Slice); isSlice {
				// slices are passed by content: (seq, len)
				hh := env.heap()
				if v.Old && env.old != nil {
					hh = env.old
				}
				args = append(args, e.seqOfSlice(hh, v.T), "(s_len "+v.T+")")
				sorts = append(sorts, "(Array Int Int)", "Int")
				continue
			}
			t, s := e.toIntArg(env, v)
			args = append(args, t)
			sorts = append(sorts, s)
		}
		ret := map[string]string{"uf": "Int", "uf8": "Int", "ufb": "Bool", "ufbytes": "(Array Int Int)"}[name]
		fname += "_" + fmt.Sprint(len(args))
		e.sc.declFun(fname, sorts, ret)
		t := app(fname, args...)
		if name == "ufbytes" {
			return SVal{T: sel(t, idx), Typ: types.Typ[types.Byte]}
		}
		if name == "ufb" {
			return SVal{T: t, Typ: boolT}
		}
		if name == "uf8" {
			return SVal{T: t, Typ: types.Typ[types.Byte]}
		}
		return SVal{T: t, Typ: intT}
	case "ite":
		c := e.mat(env, e.sx(env, n.Args[0]))
		a, b := e.sx(env, n.Args[1]), e.sx(env, n.Args[2])
		t := a.Typ
		if a.IsNil {
			t = b.Typ
		}
		at, bt := e.mat(env, a), e.mat(env, b)
		if a.IsNil {
			at = e.sc.zeroOf(t)
		}
		if b.IsNil {
			bt = e.sc.zeroOf(t)
		}
		if bb, ok := t.(*types.Basic); ok && bb.Info()&types.IsUntyped != 0 {
			t = types.Default(t)
		}
		return SVal{T: ite(c, at, bt), Typ: t}
	case "buflen":
		e.bufferMaps()
		b := e.mat(env, e.sx(env, n.Args[0]))
		return SVal{T: fmt.Sprintf("(- %s %s)", sel(e.hget(env.heap(), "GB_bufwr"), b), sel(e.hget(env.heap(), "GB_bufrd"), b)), Typ: intT}
	case "bufbyte":
		e.bufferMaps()
		b := e.mat(env, e.sx(env, n.Args[0]))
		i := e.mat(env, e.sx(env, n.Args[1]))
		return SVal{T: e.at(types.Typ[types.Byte], sel(e.hget(env.heap(), "GB_bufdata"), b), sel(e.hget(env.heap(), "GB_bufrd"), b), i), Typ: types.Typ[types.Byte]}
	case "arrSet":
		// arrSet(a, i, v): the array value a with element i replaced by v
		a := e.sx(env, n.Args[0])
		return SVal{T: sto(e.mat(env, a), e.mat(env, e.sx(env, n.Args[1])), e.mat(env, e.sx(env, n.Args[2]))), Typ: a.Typ}
	case "clock":
		// clock(): the latest value read from the (monotone) wall clock, in ns
		return SVal{T: e.hget(env.heap(), e.heapMap("G_clock", "Int")), Typ: intT}
	case "nanos":
		// nanos(t): a time.Time as nanoseconds since the Unix epoch (the model's representation)
		return SVal{T: e.mat(env, e.sx(env, n.Args[0])), Typ: intT}
	case "signed64":
		// signed64(u): the value of the 64-bit pattern u (0 <= u < 2^64) read as a two's-complement int64
		u := e.mat(env, e.sx(env, n.Args[0]))
		return SVal{T: fmt.Sprintf("(ite (>= %s 9223372036854775808) (- %s 18446744073709551616) %s)", u, u, u), Typ: intT}
	case "sumInts":
		// sum of an []int: uninterpreted sum(array, off, len) with the usual unfolding lemma-axioms
		v := e.sx(env, n.Args[0])
		hh := env.heap()
		if v.Old && env.old != nil {
			hh = env.old
		}
		if v.Acq && env.st.acq != nil {
			hh = env.st.acq
		}
		e.sumDecls()
		return SVal{T: app("isum", sel(e.hget(hh, e.elemHeap(types.Typ[types.Int])), "(s_arr "+v.T+")"), "(s_off "+v.T+")", "(s_len "+v.T+")"), Typ: intT}
	case "prefix":
		// prefix(arrayValue, n): the first n elements of an array value as a byte sequence
		v := e.sx(env, n.Args[0])
		k := e.mat(env, e.sx(env, n.Args[1]))
		return SVal{T: app(e.seqFun(), e.mat(env, v), "0", k), Typ: v.Typ}
	case "arrayOf":
		v := e.sx(env, n.Args[0])
		if _, ok := types.Unalias(v.Typ).Underlying().(*types.Slice); ok {
			return SVal{T: "(s_arr " + v.T + ")", Typ: intT}
		}
		if v.Ref != "" {
			return SVal{T: v.Ref, Typ: intT}
		}
		return SVal{T: v.T, Typ: intT}
	case "lower":
		e.sc.declFun("str_lower", []string{"Str"}, "Str")
		return SVal{T: app("str_lower", e.mat(env, e.sx(env, n.Args[0]))), Typ: types.Typ[types.String]}
	case "joinHostPort":
		e.sc.declFun("join_host_port", []string{"Str", "Str"}, "Str")
		return SVal{T: app("join_host_port", e.mat(env, e.sx(env, n.Args[0])), e.mat(env, e.sx(env, n.Args[1]))), Typ: types.Typ[types.String]}
	case "strOfBytes":
		v := e.sx(env, n.Args[0])
		return SVal{T: e.strOfBytes(env.heap(), v.T), Typ: types.Typ[types.String]}
	case "dbSame", "dbRecSame", "dbFieldSame":
		// the whole ghost database / the record of bucket b is as it was in the old state
		if env.old == nil {
			return e.specErr(env, n, name+" needs an old state")
		}
		has, khas, vlen, val, _ := e.dbMaps()
		cur := env.heap()
		if name == "dbSame" {
			var cs []string
			for _, m := range []string{has, khas, vlen, val} {
				cs = append(cs, eq(e.hget(cur, m), e.hget(env.old, m)))
			}
			return SVal{T: and(cs...), Typ: boolT}
		}
		b := e.mat(env, e.sx(env, n.Args[0]))
		var cs []string
		if name == "dbFieldSame" {
			k := e.mat(env, e.sx(env, n.Args[1]))
			for _, m := range []string{khas, vlen, val} {
				cs = append(cs, eq(sel(sel(e.hget(cur, m), b), k), sel(sel(e.hget(env.old, m), b), k)))
			}
			return SVal{T: and(cs...), Typ: boolT}
		}
		for _, m := range []string{has, khas, vlen, val} {
			cs = append(cs, eq(sel(e.hget(cur, m), b), sel(e.hget(env.old, m), b)))
		}
		return SVal{T: and(cs...), Typ: boolT}
	case "dbHas", "dbKey", "dbLen", "dbByte":
		// ghost database (models_bolt.go): bucket b exists / key k present in b / length and bytes of the value
		has, khas, vlen, val, _ := e.dbMaps()
		b := e.mat(env, e.sx(env, n.Args[0]))
		switch name {
		case "dbHas":
			return SVal{T: sel(e.hget(env.heap(), has), b), Typ: boolT}
		case "dbKey":
			return SVal{T: sel(sel(e.hget(env.heap(), khas), b), e.mat(env, e.sx(env, n.Args[1]))), Typ: boolT}
		case "dbLen":
			return SVal{T: sel(sel(e.hget(env.heap(), vlen), b), e.mat(env, e.sx(env, n.Args[1]))), Typ: intT}
		}
		return SVal{T: sel(sel(sel(e.hget(env.heap(), val), b), e.mat(env, e.sx(env, n.Args[1]))), e.mat(env, e.sx(env, n.Args[2]))), Typ: types.Typ[types.Byte]}
	case "lastret", "lastretOf":
		// lastret("F"): the (first, integer-like) result of the most recent call of the contracted function F
		lit, ok := n.Args[0].(*ast.BasicLit)
		if !ok {
			return e.specErr(env, n, "lastret needs a string literal")
		}
		var rt types.Type = intT
		if name == "lastretOf" {
			// lastretOf[T]("F"): the same for a first result of type T
			if tv, ok := env.pkg.Info.Types[n]; ok && tv.Type != nil {
				rt = tv.Type
			}
		}
		return SVal{T: e.hget(env.heap(), e.heapMap("GS_ret."+sanitize(strings.Trim(lit.Value, "\"")), e.sc.sortOf(rt))), Typ: rt}
	case "calls":
		// calls("F"): how often the contracted function F has been called on this path so far
		lit, ok := n.Args[0].(*ast.BasicLit)
		if !ok {
			return e.specErr(env, n, "calls needs a string literal")
		}
		return SVal{T: e.hget(env.heap(), e.callsCounter(strings.Trim(lit.Value, "\""))), Typ: intT}
	case "called":
		lit, ok := n.Args[0].(*ast.BasicLit)
		if !ok {
			return e.specErr(env, n, "called needs a string literal")
		}
		return SVal{T: e.hget(env.heap(), e.calledFlag(strings.Trim(lit.Value, "\""))), Typ: boolT}
	case "succeeded":
		lit, ok := n.Args[0].(*ast.BasicLit)
		if !ok {
			return e.specErr(env, n, "succeeded needs a string literal")
		}
		return SVal{T: e.hget(env.heap(), e.succFlag(strings.Trim(lit.Value, "\""))), Typ: boolT}
	case "ghostget", "ghostgetb":
		lit := n.Args[0].(*ast.BasicLit)
		gname := strings.Trim(lit.Value, "\"")
		k, _ := e.toIntArg(env, e.sx(env, n.Args[1]))
		if name == "ghostget" {
			m := e.heapMap("GU_"+sanitize(gname), "(Array Int Int)")
			return SVal{T: sel(e.hget(env.heap(), m), k), Typ: intT}
		}
		m := e.heapMap("GB_"+sanitize(gname), "(Array Int Bool)")
		return SVal{T: sel(e.hget(env.heap(), m), k), Typ: boolT}
	case "result":
		var i int
		fmt.Sscan(e.mat(env, e.sx(env, n.Args[0])), &i)
		if i < len(env.results) {
			return SVal{T: env.results[i].T, Typ: env.results[i].Typ}
		}
		return e.specErr(env, n, "result index out of range")
	case "heapHas", "heapRef", "heapLen", "heapMin":
		// ghost state of a priority queue owned by object x (models_heap.go)
		has, ref, cnt, min := e.heapGhost()
		x := e.mat(env, e.sx(env, n.Args[0]))
		switch name {
		case "heapLen":
			return SVal{T: sel(e.hget(env.heap(), cnt), x), Typ: intT}
		case "heapMin":
			return SVal{T: sel(e.hget(env.heap(), min), x), Typ: types.Typ[types.Uint64]}
		case "heapHas":
			return SVal{T: sel(sel(e.hget(env.heap(), has), x), e.mat(env, e.sx(env, n.Args[1]))), Typ: boolT}
		}
		// heapRef(x, s, typed nil pointer) would need a type argument: the element type is taken from the
		// generic instantiation heapRef[T]
		var rt types.Type = types.Typ[types.Int]
		if tv, ok := env.pkg.Info.Types[n]; ok && tv.Type != nil {
			rt = tv.Type
		}
		return SVal{T: sel(sel(e.hget(env.heap(), ref), x), e.mat(env, e.sx(env, n.Args[1]))), Typ: rt}
	case "fieldOf":
		// fieldOf(p, "name"): field of the struct p points to, by name - also unexported fields of
		// another package of the repository (which Go-typed contract text cannot mention)
		p := e.sx(env, n.Args[0])
		lit, ok := n.Args[1].(*ast.BasicLit)
		pt, ok2 := types.Unalias(p.Typ).Underlying().(*types.Pointer)
		if !ok || !ok2 {
			return e.specErr(env, n, "fieldOf needs a pointer and a field name")
		}
		want := strings.Trim(lit.Value, "\"")
		var pkg *types.Package
		if nt, ok := types.Unalias(pt.Elem()).(*types.Named); ok {
			pkg = nt.Obj().Pkg()
		}
		_, idx, _ := types.LookupFieldOrMethod(pt, true, pkg, want)
		if len(idx) == 0 {
			return e.specErr(env, n, "fieldOf: no field %s", want)
		}
		v := p
		for _, i := range idx {
			v = e.fieldStep(env, v, i)
		}
		return v
	case "ghostcall":
		// ghostcall("pkg.fn", args...): a boolean ghost function of ANOTHER package of the repository
		// (its contract file's unexported names cannot be mentioned in Go-typed contract text)
		lit, ok := n.Args[0].(*ast.BasicLit)
		if !ok {
			return e.specErr(env, n, "ghostcall needs a literal \"pkg.fn\"")
		}
		want := strings.Trim(lit.Value, "\"")
		dot := strings.LastIndex(want, ".")
		if dot < 0 {
			return e.specErr(env, n, "ghostcall needs \"pkg.fn\"")
		}
		var g *ghostFn
		for _, p := range e.w.Order {
			if p.PP.Name == want[:dot] || p.Path == want[:dot] {
				if gg, ok := p.ghostDecl[want[dot+1:]]; ok && gg.Expr != nil {
					g = gg
				}
			}
		}
		if g == nil {
			return e.specErr(env, n, "ghostcall: no ghost function %s", want)
		}
		return e.applyGhost(env, n, g, n.Args[1:])
	case "deref":
		p := e.sx(env, n.Args[0])
		pt := types.Unalias(p.Typ).Underlying().(*types.Pointer)
		return SVal{T: sel(e.hget(env.heap(), e.boxHeap(pt.Elem())), p.T), Typ: pt.Elem()}
	case "min", "max":
		a, b := e.mat(env, e.sx(env, n.Args[0])), e.mat(env, e.sx(env, n.Args[1]))
		op := "<="
		if name == "max" {
			op = ">="
		}
		return SVal{T: ite(app(op, a, b), a, b), Typ: intT}
	}
	// user ghost function
	if name != "" {
		if g, ok := env.pkg.ghostDecl[name]; ok && g.Expr != nil {
			return e.applyGhost(env, n, g, n.Args)
		}
	}
	return e.specErr(env, n, "unsupported call in contract: %s", types.ExprString(n.Fun))
}

func (e *Exec) bytesEqTerm(env *SpecEnv, a, b SVal) string {
	h := env.heap()
	m := e.elemHeap(types.Typ[types.Byte])
	q := e.sc.freshName("q.i")
	get := func(v SVal, st *State) (string, string) {
		switch t := types.Unalias(v.Typ).Underlying().(type) {
		case *types.Slice:
			return fmt.Sprintf("(select (select %s (s_arr %s)) (+ (s_off %s) %s))", e.hget(st, m), v.T, v.T, q), "(s_len " + v.T + ")"
		case *types.Array:
			if v.Ref != "" {
				return fmt.Sprintf("(select (select %s %s) %s)", e.hget(st, m), v.Ref, q), fmt.Sprint(t.Len())
			}
			return fmt.Sprintf("(select %s %s)", v.T, q), fmt.Sprint(t.Len())
		}
		return "0", "0"
	}
	ha, hb := h, h
	if a.Old && env.old != nil {
		ha = env.old
	}
	if b.Old && env.old != nil {
		hb = env.old
	}
	ea, la := get(a, ha)
	eb, lb := get(b, hb)
	return fmt.Sprintf("(and (= %s %s) (forall ((%s Int)) (=> (and (<= 0 %s) (< %s %s)) (= %s %s))))", la, lb, q, q, q, la, ea, eb)
}
