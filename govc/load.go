package main

// Loading of /repo's packages (build tag verif), generation and type checking
// of the in-memory ghost file that carries every contract clause as a Go
// function, and construction of go/ssa (naive form) for the real code plus the
// lemma functions.

import (
	"fmt"
	"go/ast"
	"go/parser"
	"go/token"
	"go/types"
	"os"
	"path/filepath"
	"sort"
	"strings"

	"golang.org/x/tools/go/packages"
	"golang.org/x/tools/go/ssa"
	"golang.org/x/tools/go/ssa/ssautil"
)

type ghostFn struct {
	Name   string
	Params []string
	Decl   *ast.FuncDecl
	Expr   ast.Expr // returned expression
	Pkg    *Pkg
}

type Pkg struct {
	Path      string
	PP        *packages.Package
	Contracts *PkgContracts
	GhostSrc  string
	GhostFile *ast.File
	Info      *types.Info
	Types     *types.Package
	SSA       *ssa.Package
	Prog      *ssa.Program
	ghostFns  map[string]*ghostFn      // by ghost function name
	ghostDecl map[string]*ghostFn      // user ghost funcs by name
	funcByKey map[string]*ssa.Function // contract key -> function
}

type World struct {
	Fset     *token.FileSet
	Pkgs     map[string]*Pkg // by path
	Order    []*Pkg
	allTypes map[string]*types.Package // importer map
	Contract map[string]*FuncContract  // by FullKey
	LibSpecs *PkgContracts
	RepoDir  string
	Sizes    types.Sizes
	disc     *Discipline
}

type mapImporter map[string]*types.Package

func (m mapImporter) Import(path string) (*types.Package, error) {
	if p, ok := m[path]; ok {
		return p, nil
	}
	return nil, fmt.Errorf("package %q not loaded", path)
}

const ghostPrelude = `
func old[T any](x T) T { return x }
func acq[T any](x T) T { return x }
func sumInts(s []int) int { return 0 }
func nanos(t any) int { return 0 }
func clock() int { return 0 }
func arrSet[T any](a T, i int, v any) T { return a }
func signed64(u int) int { return u }
func implies(a, b bool) bool { return !a || b }
func iff(a, b bool) bool { return a == b }
func forall(f any) bool { return true }
func exists(f any) bool { return true }
func assert(b bool) {}
func assume(b bool) {}
func held(m any) bool { return true }
func holdsNone() bool { return true }
func heldx(m any) bool { return true }
func locksBelow(m any) bool { return true }
func holdsOnly(m any) bool { return true }
func holdsAsAtEntry() bool { return true }
func holdsEntryPlus(m any) bool { return true }
func inpos(c any) int { return 0 }
func inbyte(c any, i int) byte { return 0 }
func outlen(c any) int { return 0 }
func outbyte(c any, i int) byte { return 0 }
func outwrites(c any) int { return 0 }
func closedconn(c any) bool { return false }
func rdeadline(c any) int { return 0 }
func deadlineArmed(c any) bool { return false }
func succeeded(f string) bool { return false }
func called(f string) bool { return false }
func dbSame() bool { return false }
func dbRecSame(b string) bool { return false }
func dbFieldSame(b, k string) bool { return false }
func dbHas(b string) bool { return false }
func dbKey(b, k string) bool { return false }
func dbLen(b, k string) int { return 0 }
func dbByte(b, k string, i int) byte { return 0 }
func fresh(x any) bool { return true }
func allocated(x any) bool { return true }
func typeIs[T any](x any) bool { return true }
func nonnil(x any) bool { return true }
func sameSlice(a, b any) bool { return true }
func offsetIn(a, b any) int { return 0 }
func aliases(a, b any, off int) bool { return true }
func disjoint(a, b any) bool { return true }
func bytesEq(a, b any) bool { return true }
func unchanged(a any) bool { return true }
func mapHas(m any, k any) bool { return true }
func mapLen(m any) int { return 0 }
func uf(name string, args ...any) int { return 0 }
func ufb(name string, args ...any) bool { return true }
func uf8(name string, args ...any) byte { return 0 }
func ufbytes(name string, i int, args ...any) byte { return 0 }
func strOfBytes(b []byte) string { return "" }
func result[T any](i int) T { var z T; return z }
func ghostget(name string, key any) int { return 0 }
func ghostgetb(name string, key any) bool { return true }
func ghostset(name string, key any, v any) {}
func ghosthavoc(name string) {}
func visited(k any) bool { return true }
func deref[T any](p *T) T { return *p }
func fieldOf(p any, name string) any { return nil }
func ghostcall(name string, args ...any) bool { return true }
func heapHas(x any, s uint64) bool { return false }
func heapRef[T any](x any, s uint64) T { var z T; return z }
func heapLen(x any) int { return 0 }
func heapMin(x any) uint64 { return 0 }
func calls(f string) int { return 0 }
func lastret(f string) int { return 0 }
func lastretOf[T any](f string) T { var z T; return z }
func lockOf(x any) any { return x }
func ite[T any](c bool, a, b T) T { if c { return a }; return b }
func buflen(b any) int { return 0 }
func bufbyte(b any, i int) byte { return 0 }
func arrayOf(x any) int { return 0 }
func prefix[T any](a T, n int) T { return a }
func lower(s string) string { return s }
func joinHostPort(h, p string) string { return h }
func modtarget(x any) bool { return true }
func elems(x any) any { return x }
func mapof(x any) any { return x }
func conn(x any) any { return x }
func connin(x any) any { return x }
func connout(x any) any { return x }
func connclosed(x any) any { return x }
func conndeadline(x any) any { return x }
func lockstate(x any) any { return x }
`

func loadWorld(repo string, patterns []string) (*World, error) {
	w := &World{Fset: token.NewFileSet(), Pkgs: map[string]*Pkg{}, allTypes: map[string]*types.Package{}, Contract: map[string]*FuncContract{}, RepoDir: repo}
	cfg := &packages.Config{
		Mode: packages.NeedName | packages.NeedFiles | packages.NeedCompiledGoFiles | packages.NeedImports | packages.NeedDeps |
			packages.NeedTypes | packages.NeedSyntax | packages.NeedTypesInfo | packages.NeedTypesSizes,
		Dir:        repo,
		Fset:       w.Fset,
		BuildFlags: []string{"-tags=verif"},
		Env:        append(os.Environ(), "GOFLAGS=-mod=mod", "GOPROXY=off"),
	}
	pkgs, err := packages.Load(cfg, patterns...)
	if err != nil {
		return nil, err
	}
	var errs []string
	packages.Visit(pkgs, nil, func(p *packages.Package) {
		for _, e := range p.Errors {
			errs = append(errs, e.Error())
		}
		if p.Types != nil {
			w.allTypes[p.PkgPath] = p.Types
		}
	})
	if len(errs) > 0 {
		return nil, fmt.Errorf("package load errors (code does not build): %s", strings.Join(errs, "; "))
	}
	for _, pp := range pkgs {
		if w.Sizes == nil {
			w.Sizes = pp.TypesSizes
		}
		p := &Pkg{Path: pp.PkgPath, PP: pp, ghostFns: map[string]*ghostFn{}, ghostDecl: map[string]*ghostFn{}, funcByKey: map[string]*ssa.Function{}}
		p.Contracts = &PkgContracts{PkgPath: pp.PkgPath, Funcs: map[string]*FuncContract{}}
		for _, f := range pp.CompiledGoFiles {
			if strings.HasSuffix(f, "_verif.go") {
				if err := parseContractFile(f, pp.PkgPath, p.Contracts); err != nil {
					return nil, err
				}
			}
		}
		w.Pkgs[p.Path] = p
		w.Order = append(w.Order, p)
	}
	sort.Slice(w.Order, func(i, j int) bool { return w.Order[i].Path < w.Order[j].Path })
	for _, p := range w.Order {
		if err := w.buildPkg(p); err != nil {
			return nil, err
		}
		for _, fc := range p.Contracts.Funcs {
			w.Contract[fc.FullKey] = fc
		}
	}
	return w, nil
}

// findFuncObj locates the types.Func (and its declaration) for a contract key in the first-load package.
func findFuncDecl(pp *packages.Package, key string) (*ast.FuncDecl, *ast.FuncLit, *types.Signature) {
	base := key
	anon := []int{}
	for {
		i := strings.LastIndex(base, "$")
		if i < 0 {
			break
		}
		var n int
		if _, err := fmt.Sscanf(base[i+1:], "%d", &n); err != nil {
			break
		}
		anon = append([]int{n}, anon...)
		base = base[:i]
	}
	var recv, name string
	if strings.HasPrefix(base, "(") {
		end := strings.Index(base, ")")
		recv = strings.TrimPrefix(base[1:end], "*")
		name = strings.TrimPrefix(base[end+1:], ".")
	} else {
		name = base
	}
	for _, f := range pp.Syntax {
		for _, d := range f.Decls {
			fd, ok := d.(*ast.FuncDecl)
			if !ok || fd.Name.Name != name {
				continue
			}
			r := ""
			if fd.Recv != nil && len(fd.Recv.List) > 0 {
				t := fd.Recv.List[0].Type
				if st, ok := t.(*ast.StarExpr); ok {
					t = st.X
				}
				if id, ok := t.(*ast.Ident); ok {
					r = id.Name
				}
			}
			if r != recv {
				continue
			}
			if len(anon) == 0 {
				obj := pp.TypesInfo.Defs[fd.Name].(*types.Func)
				return fd, nil, obj.Type().(*types.Signature)
			}
			// locate the n-th function literal (go/ssa numbering: source order, nested as $a$b)
			var cur ast.Node = fd.Body
			var lit *ast.FuncLit
			for _, n := range anon {
				lit = nthFuncLit(cur, n)
				if lit == nil {
					return nil, nil, nil
				}
				cur = lit.Body
			}
			sig, _ := pp.TypesInfo.TypeOf(lit).(*types.Signature)
			return fd, lit, sig
		}
	}
	return nil, nil, nil
}

func nthFuncLit(root ast.Node, n int) *ast.FuncLit {
	cnt := 0
	var res *ast.FuncLit
	ast.Inspect(root, func(x ast.Node) bool {
		if res != nil {
			return false
		}
		if fl, ok := x.(*ast.FuncLit); ok {
			cnt++
			if cnt == n {
				res = fl
			}
			return false // nested literals are numbered relative to their parent
		}
		return true
	})
	return res
}

type localVar struct {
	Name string
	Type types.Type
}

// localsOf returns the named variables declared in body (first declaration of each name wins).
func localsOf(info *types.Info, body ast.Node, skip map[string]bool) []localVar {
	var out []localVar
	seen := map[string]bool{}
	type posVar struct {
		pos token.Pos
		v   *types.Var
	}
	var all []posVar
	ast.Inspect(body, func(x ast.Node) bool {
		if _, ok := x.(*ast.FuncLit); ok && x != body {
			return false
		}
		if id, ok := x.(*ast.Ident); ok {
			if v, ok := info.Defs[id].(*types.Var); ok && v != nil && !v.IsField() && id.Name != "_" {
				all = append(all, posVar{id.Pos(), v})
			}
		}
		return true
	})
	sort.Slice(all, func(i, j int) bool { return all[i].pos < all[j].pos })
	for _, pv := range all {
		if seen[pv.v.Name()] || skip[pv.v.Name()] {
			continue
		}
		seen[pv.v.Name()] = true
		out = append(out, localVar{pv.v.Name(), pv.v.Type()})
	}
	return out
}

func (w *World) buildPkg(p *Pkg) error {
	pp := p.PP
	imports := map[string]string{} // path -> alias
	usedAlias := map[string]bool{}
	qual := func(other *types.Package) string {
		if other.Path() == pp.PkgPath {
			return ""
		}
		if a, ok := imports[other.Path()]; ok {
			return a
		}
		a := "q_" + strings.NewReplacer("/", "_", ".", "_", "-", "_").Replace(other.Path())
		imports[other.Path()] = a
		usedAlias[a] = true
		return a
	}
	var body strings.Builder
	n := 0
	printable := func(t types.Type) (string, bool) {
		s := types.TypeString(t, qual)
		// unexported foreign types cannot be named
		ok := true
		var check func(t types.Type)
		seenT := map[types.Type]bool{}
		check = func(t types.Type) {
			if seenT[t] {
				return
			}
			seenT[t] = true
			switch tt := t.(type) {
			case *types.Named:
				if tt.Obj().Pkg() != nil && tt.Obj().Pkg().Path() != pp.PkgPath && !tt.Obj().Exported() {
					ok = false
				}
				if tt.TypeArgs() != nil {
					for i := 0; i < tt.TypeArgs().Len(); i++ {
						check(tt.TypeArgs().At(i))
					}
				}
			case *types.Pointer:
				check(tt.Elem())
			case *types.Slice:
				check(tt.Elem())
			case *types.Array:
				check(tt.Elem())
			case *types.Map:
				check(tt.Key())
				check(tt.Elem())
			case *types.Chan:
				check(tt.Elem())
			case *types.Signature:
				for i := 0; i < tt.Params().Len(); i++ {
					check(tt.Params().At(i).Type())
				}
				for i := 0; i < tt.Results().Len(); i++ {
					check(tt.Results().At(i).Type())
				}
			case *types.TypeParam:
				ok = false
			}
		}
		check(t)
		return s, ok
	}
	keys := make([]string, 0, len(p.Contracts.Funcs))
	for k := range p.Contracts.Funcs {
		keys = append(keys, k)
	}
	sort.Strings(keys)
	for _, key := range keys {
		fc := p.Contracts.Funcs[key]
		fd, lit, sig := findFuncDecl(pp, key)
		var params []localVar
		skip := map[string]bool{}
		if fd == nil {
			// library / interface contract: key like "(io.Reader).Read" or "io.ReadFull" — resolved via lookupExternalSig
			sig2, recvT := w.lookupExternalSig(p, fc)
			if sig2 == nil {
				return fmt.Errorf("%s:%d: contract for unknown function %s", fc.File, fc.Line, key)
			}
			sig = sig2
			if recvT != nil {
				fc.fnRecvT = recvT
				params = append(params, localVar{"recv", recvT})
				skip["recv"] = true
			}
		} else if lit == nil && sig.Recv() != nil {
			rn := sig.Recv().Name()
			if rn == "" || rn == "_" {
				rn = "recv"
			}
			params = append(params, localVar{rn, sig.Recv().Type()})
			skip[rn] = true
		}
		for i := 0; i < sig.Params().Len(); i++ {
			v := sig.Params().At(i)
			nm := v.Name()
			if nm == "" || nm == "_" {
				nm = fmt.Sprintf("arg%d", i)
			}
			t := v.Type()
			if sig.Variadic() && i == sig.Params().Len()-1 {
				// keep slice type
			}
			params = append(params, localVar{nm, t})
			skip[nm] = true
		}
		var results []localVar
		for i := 0; i < sig.Results().Len(); i++ {
			v := sig.Results().At(i)
			nm := v.Name()
			if nm == "" || nm == "_" {
				nm = fmt.Sprintf("ret%d", i)
			} else {
				// also allow retN alias for named results? keep names only
			}
			if skip[nm] {
				continue
			}
			results = append(results, localVar{nm, v.Type()})
			skip[nm] = true
		}
		var locals []localVar
		if fd != nil {
			var bodyNode ast.Node = fd.Body
			if lit != nil {
				bodyNode = lit.Body
				// enclosing function's variables are visible in closures too (free variables)
				enc := localsOf(pp.TypesInfo, fd.Body, skip)
				// add enclosing params
				encSig := pp.TypesInfo.Defs[fd.Name].(*types.Func).Type().(*types.Signature)
				if encSig.Recv() != nil && encSig.Recv().Name() != "" && !skip[encSig.Recv().Name()] {
					locals = append(locals, localVar{encSig.Recv().Name(), encSig.Recv().Type()})
					skip[encSig.Recv().Name()] = true
				}
				for i := 0; i < encSig.Params().Len(); i++ {
					v := encSig.Params().At(i)
					if v.Name() != "" && v.Name() != "_" && !skip[v.Name()] {
						locals = append(locals, localVar{v.Name(), v.Type()})
						skip[v.Name()] = true
					}
				}
				for i := 0; i < encSig.Results().Len(); i++ {
					v := encSig.Results().At(i)
					if v.Name() != "" && v.Name() != "_" && !skip[v.Name()] {
						locals = append(locals, localVar{v.Name(), v.Type()})
						skip[v.Name()] = true
					}
				}
				for _, lv := range enc {
					if !skip[lv.Name] {
						locals = append(locals, lv)
						skip[lv.Name] = true
					}
				}
			}
			if bodyNode != nil {
				locals = append(locals, localsOf(pp.TypesInfo, bodyNode, skip)...)
			}
		}
		emit := func(c *Clause, vars []localVar) {
			n++
			name := fmt.Sprintf("vc__%d", n)
			var ps []string
			var names []string
			for _, v := range vars {
				ts, ok := printable(v.Type)
				if !ok {
					continue
				}
				if strings.HasPrefix(ts, "...") {
					ts = "[]" + ts[3:]
				}
				ps = append(ps, v.Name+" "+ts)
				names = append(names, v.Name)
			}
			fmt.Fprintf(&body, "//line %s:%d\nfunc %s(%s) bool { return %s }\n", c.File, c.Line, name, strings.Join(ps, ", "), c.Go)
			c.fn = &ghostFn{Name: name, Params: names, Pkg: p}
			p.ghostFns[name] = c.fn
		}
		for _, v := range params {
			fc.PNames = append(fc.PNames, v.Name)
		}
		for _, v := range results {
			fc.RNames = append(fc.RNames, v.Name)
		}
		if lit != nil {
			// closures: the enclosing function's variables are visible in requires/ensures as well
			// (they are not call arguments: PNames/RNames above stay as they are)
			params = append(append([]localVar{}, params...), locals...)
		}
		for _, c := range fc.Requires {
			emit(c, params)
		}
		for _, c := range fc.RepInvs {
			emit(c, params)
		}
		for _, c := range fc.ModClauses {
			if c.RawMod != "" {
				continue
			}
			// Type.field items name a whole field map
			if i := strings.Index(c.Text, "."); i > 0 && !strings.ContainsAny(c.Text, "()[]* ") {
				if tn, ok := pp.Types.Scope().Lookup(c.Text[:i]).(*types.TypeName); ok && tn != nil {
					c.RawMod = "type:" + c.Text
					continue
				}
			}
			emit(c, params)
		}
		all := append(append([]localVar{}, params...), results...)
		for _, c := range fc.Ensures {
			emit(c, all)
		}
		allLoc := append([]localVar{}, all...)
		for _, lv := range locals {
			dup := false
			for _, x := range allLoc {
				if x.Name == lv.Name {
					dup = true
				}
			}
			if !dup {
				allLoc = append(allLoc, lv)
			}
		}
		for _, rn := range []string{"rangeindex", "rangeindex_2", "rangeindex_3"} {
			if !skip[rn] {
				clash := false
				for _, lv := range allLoc {
					if lv.Name == rn {
						clash = true
					}
				}
				if !clash {
					allLoc = append(allLoc, localVar{rn, types.Typ[types.Int]})
				}
			}
		}
		ords := []int{}
		for o := range fc.Loops {
			ords = append(ords, o)
		}
		sort.Ints(ords)
		for _, o := range ords {
			for _, c := range fc.Loops[o] {
				emit(c, allLoc)
			}
		}
		// atcall clauses may name the actual arguments of the call: arg0, arg1, ... (typed any here,
		// bound to the real values when the clause is evaluated)
		anyT := types.Universe.Lookup("any").Type()
		withArgs := append([]localVar{}, allLoc...)
		for i := 0; i < 4; i++ {
			nm := fmt.Sprintf("arg%d", i)
			dup := false
			for _, lv := range withArgs {
				if lv.Name == nm {
					dup = true
				}
			}
			if !dup {
				withArgs = append(withArgs, localVar{nm, anyT})
			}
		}
		// ... and the receiver of a method call: callrecv
		hasRecv := false
		for _, lv := range withArgs {
			if lv.Name == "callrecv" {
				hasRecv = true
			}
		}
		if !hasRecv {
			withArgs = append(withArgs, localVar{"callrecv", anyT})
		}
		for _, ac := range fc.AtCalls {
			emit(ac.Clause, withArgs)
		}
	}
	for _, li := range append(append([]LockInvDecl{}, p.Contracts.LockInvs...), p.Contracts.PoolInvs...) {
		c := li.Clause
		tname := strings.SplitN(li.Lock, ".", 2)[0]
		n++
		name := fmt.Sprintf("vc__%d", n)
		ps := "self *" + tname
		names := []string{"self"}
		if c.Kind == "poolinv" {
			ps = "x any, self *" + tname
			names = []string{"x", "self"}
		}
		fmt.Fprintf(&body, "//line %s:%d\nfunc %s(%s) bool { return %s }\n", c.File, c.Line, name, ps, c.Go)
		c.fn = &ghostFn{Name: name, Params: names, Pkg: p}
		p.ghostFns[name] = c.fn
	}
	for _, c := range p.Contracts.Axioms {
		n++
		name := fmt.Sprintf("vc__%d", n)
		fmt.Fprintf(&body, "//line %s:%d\nfunc %s() bool { return %s }\n", c.File, c.Line, name, c.Go)
		c.fn = &ghostFn{Name: name, Pkg: p}
		p.ghostFns[name] = c.fn
	}
	for _, g := range p.Contracts.Ghosts {
		fmt.Fprintf(&body, "//line %s:%d\n%s\n", g.File, g.Line, g.Src)
	}
	var src strings.Builder
	fmt.Fprintf(&src, "package %s\n\n", pp.Name)
	paths := make([]string, 0, len(imports))
	for path := range imports {
		paths = append(paths, path)
	}
	sort.Strings(paths)
	for _, path := range paths {
		fmt.Fprintf(&src, "import %s %q\n", imports[path], path)
	}
	for _, im := range p.Contracts.Imports {
		fmt.Fprintf(&src, "import %s\n", im)
	}
	src.WriteString(ghostPrelude)
	src.WriteString(body.String())
	p.GhostSrc = src.String()
	gpath := filepath.Join(filepath.Dir(pp.CompiledGoFiles[0]), "zz_ghost_generated_verif.go")
	gf, err := parser.ParseFile(w.Fset, gpath, p.GhostSrc, parser.ParseComments|parser.SkipObjectResolution)
	if err != nil {
		return fmt.Errorf("contract syntax error in package %s: %v", pp.PkgPath, err)
	}
	p.GhostFile = gf
	files := append(append([]*ast.File{}, pp.Syntax...), gf)
	var terrs []string
	tc := &types.Config{Importer: mapImporter(w.allTypes), Sizes: w.Sizes, Error: func(err error) {
		s := err.Error()
		if strings.Contains(s, "imported and not used") || strings.Contains(s, "declared and not used") || (strings.Contains(s, " imported as ") && strings.HasSuffix(s, "and not used")) {
			return
		}
		terrs = append(terrs, s)
	}}
	spkg, info, err := ssautil.BuildPackage(tc, w.Fset, types.NewPackage(pp.PkgPath, pp.Name), files, ssa.NaiveForm|ssa.BuildSerially)
	if len(terrs) > 0 {
		return fmt.Errorf("contract out of date or ill-typed in package %s:\n  %s", pp.PkgPath, strings.Join(terrs, "\n  "))
	}
	if err != nil {
		return fmt.Errorf("building %s: %v", pp.PkgPath, err)
	}
	p.SSA, p.Info, p.Prog, p.Types = spkg, info, spkg.Prog, spkg.Pkg
	// attach ghost function ASTs
	for _, d := range gf.Decls {
		fd, ok := d.(*ast.FuncDecl)
		if !ok || fd.Body == nil {
			continue
		}
		if g, ok := p.ghostFns[fd.Name.Name]; ok {
			g.Decl = fd
			if len(fd.Body.List) == 1 {
				if rs, ok := fd.Body.List[0].(*ast.ReturnStmt); ok && len(rs.Results) == 1 {
					g.Expr = rs.Results[0]
				}
			}
		}
	}
	for _, g := range p.Contracts.Ghosts {
		for _, d := range gf.Decls {
			fd, ok := d.(*ast.FuncDecl)
			if !ok || fd.Name.Name != g.Name {
				continue
			}
			gfn := &ghostFn{Name: g.Name, Decl: fd, Pkg: p}
			for _, f := range fd.Type.Params.List {
				for _, nm := range f.Names {
					gfn.Params = append(gfn.Params, nm.Name)
				}
			}
			if g.Kind == "ghost" && len(fd.Body.List) == 1 {
				if rs, ok := fd.Body.List[0].(*ast.ReturnStmt); ok && len(rs.Results) == 1 {
					gfn.Expr = rs.Results[0]
				}
			}
			if g.Kind == "ghost" {
				p.ghostDecl[g.Name] = gfn
			}
		}
	}
	// map contract keys to ssa functions
	for _, fn := range allFunctions(spkg) {
		k := contractKeyOf(fn)
		p.funcByKey[k] = fn
	}
	return nil
}

// lookupExternalSig resolves contracts on functions outside the package (library functions, interface methods).
func (w *World) lookupExternalSig(p *Pkg, fc *FuncContract) (*types.Signature, types.Type) {
	key := fc.Key
	// forms: "pkgpath.Func", "(pkgpath.Type).Method", "(*pkgpath.Type).Method", local interface "(recvBuffer).Write" handled by findFuncDecl failing -> here
	var recvStr, name string
	if strings.HasPrefix(key, "func(") {
		// an unnamed function type written out ("func() *mux.Session"): the contract every value of
		// that type is assumed to satisfy when called. The expression is evaluated in the scope of
		// the first source file of the package in which it type-checks (for its import names).
		for _, f := range p.PP.Syntax {
			tv, err := types.Eval(w.Fset, p.PP.Types, f.End()-1, key)
			if err != nil || tv.Type == nil {
				continue
			}
			if sg, ok := tv.Type.Underlying().(*types.Signature); ok {
				fc.FullKey = funcTypeKey(sg)
				return sg, nil
			}
		}
		return nil, nil
	}
	if strings.HasPrefix(key, "(") {
		end := strings.Index(key, ")")
		recvStr = key[1:end]
		name = strings.TrimPrefix(key[end+1:], ".")
	} else {
		i := strings.LastIndex(key, ".")
		if i < 0 {
			// a function type of this package ("type Responder = func(...)..."): the contract every
			// value of that type is assumed to satisfy when it is called
			if tn, ok := p.PP.Types.Scope().Lookup(key).(*types.TypeName); ok {
				if sg, ok := types.Unalias(tn.Type()).Underlying().(*types.Signature); ok {
					fc.FullKey = funcTypeKey(sg)
					return sg, nil
				}
			}
			return nil, nil
		}
		pkgPath, fname := key[:i], key[i+1:]
		tp := w.allTypes[pkgPath]
		if tp == nil {
			return nil, nil
		}
		if f, ok := tp.Scope().Lookup(fname).(*types.Func); ok {
			fc.FullKey = key
			return f.Type().(*types.Signature), nil
		}
		return nil, nil
	}
	ptr := strings.HasPrefix(recvStr, "*")
	rs := strings.TrimPrefix(recvStr, "*")
	pkgPath := p.PP.PkgPath
	tname := rs
	if i := strings.LastIndex(rs, "."); i >= 0 {
		pkgPath, tname = rs[:i], rs[i+1:]
	}
	tp := w.allTypes[pkgPath]
	if tp == nil {
		return nil, nil
	}
	tn, ok := tp.Scope().Lookup(tname).(*types.TypeName)
	if !ok {
		return nil, nil
	}
	var rt types.Type = tn.Type()
	if ptr {
		rt = types.NewPointer(rt)
	}
	obj, _, _ := types.LookupFieldOrMethod(rt, true, tp, name)
	f, ok := obj.(*types.Func)
	if !ok {
		return nil, nil
	}
	if ptr {
		fc.FullKey = "(*" + pkgPath + "." + tname + ")." + name
	} else {
		fc.FullKey = "(" + pkgPath + "." + tname + ")." + name
	}
	return f.Type().(*types.Signature), rt
}

// funcTypeKey: contract key of a function type (parameter names dropped).
func funcTypeKey(sg *types.Signature) string {
	strip := func(t *types.Tuple) *types.Tuple {
		var vs []*types.Var
		for i := 0; i < t.Len(); i++ {
			vs = append(vs, types.NewVar(0, nil, "", t.At(i).Type()))
		}
		return types.NewTuple(vs...)
	}
	return "functype:" + types.TypeString(types.NewSignatureType(nil, nil, nil, strip(sg.Params()), strip(sg.Results()), sg.Variadic()), nil)
}

func allFunctions(pkg *ssa.Package) []*ssa.Function {
	var out []*ssa.Function
	var add func(f *ssa.Function)
	add = func(f *ssa.Function) {
		out = append(out, f)
		for _, a := range f.AnonFuncs {
			add(a)
		}
	}
	names := make([]string, 0, len(pkg.Members))
	for n := range pkg.Members {
		names = append(names, n)
	}
	sort.Strings(names)
	for _, n := range names {
		switch m := pkg.Members[n].(type) {
		case *ssa.Function:
			add(m)
		case *ssa.Type:
			for _, t := range []types.Type{m.Type(), types.NewPointer(m.Type())} {
				ms := pkg.Prog.MethodSets.MethodSet(t)
				for i := 0; i < ms.Len(); i++ {
					f := pkg.Prog.MethodValue(ms.At(i))
					if f != nil && f.Pkg == pkg && f.Synthetic == "" {
						dup := false
						for _, o := range out {
							if o == f {
								dup = true
							}
						}
						if !dup {
							add(f)
						}
					}
				}
			}
		}
	}
	return out
}

// contractKeyOf gives the in-package key of a function: "(*T).m", "(T).m", "f", "f$1".
func contractKeyOf(fn *ssa.Function) string {
	if fn.Parent() != nil {
		return contractKeyOf(fn.Parent()) + strings.TrimPrefix(fn.Name(), fn.Parent().Name())
	}
	if fn.Signature.Recv() != nil {
		rt := fn.Signature.Recv().Type()
		star := ""
		if pt, ok := rt.(*types.Pointer); ok {
			star = "*"
			rt = pt.Elem()
		}
		if nt, ok := rt.(*types.Named); ok {
			return "(" + star + nt.Obj().Name() + ")." + fn.Name()
		}
	}
	return fn.Name()
}

// fullKeyOfCallee gives the world-wide key for a callee function or interface method.
func fullKeyOfFunc(fn *ssa.Function) string {
	if fn.Parent() != nil {
		return fullKeyOfFunc(fn.Parent()) + strings.TrimPrefix(fn.Name(), fn.Parent().Name())
	}
	pkgPath := ""
	if fn.Pkg != nil {
		pkgPath = fn.Pkg.Pkg.Path()
	} else if fn.Object() != nil && fn.Object().Pkg() != nil {
		pkgPath = fn.Object().Pkg().Path()
	}
	if fn.Signature.Recv() != nil {
		rt := fn.Signature.Recv().Type()
		star := ""
		if pt, ok := rt.(*types.Pointer); ok {
			star = "*"
			rt = pt.Elem()
		}
		if nt, ok := rt.(*types.Named); ok {
			pp := pkgPath
			if nt.Obj().Pkg() != nil {
				pp = nt.Obj().Pkg().Path()
			}
			return "(" + star + pp + "." + nt.Obj().Name() + ")." + fn.Name()
		}
	}
	return pkgPath + "." + fn.Name()
}

func fullKeyOfMethod(recv types.Type, m *types.Func) string {
	star := ""
	if pt, ok := recv.(*types.Pointer); ok {
		star = "*"
		recv = pt.Elem()
	}
	if nt, ok := recv.(*types.Named); ok && nt.Obj().Pkg() != nil {
		return "(" + star + nt.Obj().Pkg().Path() + "." + nt.Obj().Name() + ")." + m.Name()
	}
	if nt, ok := recv.(*types.Named); ok { // universe: error
		return "(" + nt.Obj().Name() + ")." + m.Name()
	}
	return "(?)." + m.Name()
}
