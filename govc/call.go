package main

import (
	"fmt"
	"go/ast"
	"go/token"
	"go/types"
	"sort"
	"strings"

	"golang.org/x/tools/go/ssa"
)

type modelFn func(e *Exec, fr *Frame, st *State, args []Val, cc *ssa.CallCommon, pos token.Pos) Val

const maxInlineDepth = 6

// usedOnlyByAssume: the value of this call instruction only flows into assume(...) calls.
func usedOnlyByAssume(in ssa.Instruction) bool {
	v, ok := in.(ssa.Value)
	if !ok || v.Referrers() == nil || len(*v.Referrers()) == 0 {
		return false
	}
	for _, r := range *v.Referrers() {
		c, ok := r.(*ssa.Call)
		if !ok {
			// naive form: the value may first be combined by && (phi / binop) - be conservative
			return false
		}
		f := c.Call.StaticCallee()
		if f == nil || f.Name() != "assume" {
			return false
		}
	}
	return true
}

// atCalls: obligations "atcall CALLEE requires ..." of frame fr's contract at this call.
func (e *Exec) atCalls(fr *Frame, cfr *Frame, st *State, cc *ssa.CallCommon, pos token.Pos) {
	name := ""
	if cc.IsInvoke() {
		name = cc.Method.Name()
	} else if f := cc.StaticCallee(); f != nil {
		name = f.Name()
	} else if b, isB := cc.Value.(*ssa.Builtin); isB {
		// builtins (delete, close, append, copy ...) can be named in atcall clauses too
		name = b.Name()
	} else {
		// call through a function value: named after the contract on its function type, if any
		if fc := e.w.Contract[funcTypeKey(cc.Signature())]; fc != nil {
			name = fc.Key
		}
	}
	for _, ac := range fr.fc.AtCalls {
		if ac.Callee != name {
			continue
		}
		env := e.specEnvAt(fr, st)
		// arg0.. = the actual arguments of this call (receiver excluded)
		cargs := cc.Args
		if f := cc.StaticCallee(); f != nil && f.Signature.Recv() != nil && len(cargs) > 0 {
			// callrecv = the receiver of this method call
			if rv := e.val(cfr, st, cargs[0]); rv.Tuple == nil && rv.T != "" {
				rv.Typ = cargs[0].Type()
				env.vars["callrecv"] = rv
			}
			cargs = cargs[1:]
		} else if cc.IsInvoke() {
			if rv := e.val(cfr, st, cc.Value); rv.Tuple == nil && rv.T != "" {
				rv.Typ = cc.Value.Type()
				env.vars["callrecv"] = rv
			}
		}
		for i, a := range cargs {
			if i >= 4 {
				break
			}
			av := e.val(cfr, st, a)
			if av.Tuple == nil && av.Fn == nil && av.T != "" {
				av.Typ = a.Type()
				env.vars[fmt.Sprintf("arg%d", i)] = av
			}
		}
		f := e.specBool(env, ac.Clause)
		key := "atcall." + ac.Callee + "." + ac.Clause.Label
		e.sc.oblig(st.reach, f, fmt.Sprintf("%s#%s", e.unit, key)+e.siteSuffix(key), "pre", fmt.Sprintf("required at every call of %s: %s", ac.Callee, ac.Clause.Text), e.pos(pos))
	}
}

func (e *Exec) call(fr *Frame, st *State, cc *ssa.CallCommon, instr ssa.Instruction, pos token.Pos) Val {
	e.curCall = instr
	// "atcall" clauses of a function also cover the closures it calls in place
	if afr := fr; true {
		for afr.fc == nil && afr.outer != nil {
			afr = afr.outer
		}
		if afr != fr && afr.fc != nil && len(afr.fc.AtCalls) > 0 {
			e.atCalls(afr, fr, st, cc, pos)
		}
	}
	if fr.fc != nil && len(fr.fc.AtCalls) > 0 {
		e.atCalls(fr, fr, st, cc, pos)
	}
	var args []Val
	if cc.IsInvoke() {
		recv := e.val(fr, st, cc.Value)
		args = append(args, recv)
		for _, a := range cc.Args {
			args = append(args, e.val(fr, st, a))
		}
		return e.callInvoke(fr, st, cc, recv, args, pos)
	}
	for _, a := range cc.Args {
		args = append(args, e.val(fr, st, a))
	}
	switch callee := cc.Value.(type) {
	case *ssa.Builtin:
		return e.builtinCall(fr, st, callee.Name(), args, cc, pos)
	case *ssa.Function:
		return e.callStatic(fr, st, callee, nil, args, cc, pos)
	case *ssa.MakeClosure:
		fnv := e.val(fr, st, callee)
		return e.callStatic(fr, st, fnv.Fn, fnv.Bind, args, cc, pos)
	}
	fnv := e.val(fr, st, cc.Value)
	if fnv.Fn != nil {
		return e.callStatic(fr, st, fnv.Fn, fnv.Bind, args, cc, pos)
	}
	if strings.HasPrefix(fnv.T, "gfn:") {
		key := strings.TrimPrefix(fnv.T, "gfn:")
		return e.callKey(fr, st, key, nil, nil, args, cc.Signature(), cc, pos)
	}
	// a func() time.Time value (WorldState.Now): reading a clock has no effect on the verified state
	if sig := cc.Signature(); sig.Params().Len() == 0 && sig.Results().Len() == 1 && isTimeTime(sig.Results().At(0).Type()) {
		e.sc.used["func() time.Time values (WorldState.Now) are reads of a monotone clock without other side effects"] = true
		return Val{T: e.readClock(st), Typ: sig.Results().At(0).Type()}
	}
	if fc := e.w.Contract[funcTypeKey(cc.Signature())]; fc != nil {
		e.sc.used["every function value of type "+fc.Key+" is assumed to satisfy the contract stated for that type"] = true
		return e.applyContract(fr, st, fc, args, cc.Signature(), pos)
	}
	// unknown dynamic call
	e.sc.uncontracted[fmt.Sprintf("dynamic call through a function value at %s (everything havocked)", e.pos(pos))] = true
	e.havocAll(st)
	return e.fresh(st, "dyncall", cc.Signature().Results())
}

func (e *Exec) resultVal(st *State, prefix string, sig *types.Signature) Val {
	res := sig.Results()
	switch res.Len() {
	case 0:
		return Val{T: "0", Typ: res}
	case 1:
		return e.fresh(st, prefix, res.At(0).Type())
	}
	return e.fresh(st, prefix, res)
}

func (e *Exec) callInvoke(fr *Frame, st *State, cc *ssa.CallCommon, recv Val, args []Val, pos token.Pos) Val {
	// candidate keys: named interface of the static type, then the interface declaring the method
	var keys []string
	rt := types.Unalias(cc.Value.Type())
	if nt, ok := rt.(*types.Named); ok {
		keys = append(keys, fullKeyOfMethod(nt, cc.Method))
	}
	if r := cc.Method.Type().(*types.Signature).Recv(); r != nil {
		k := fullKeyOfMethod(r.Type(), cc.Method)
		if len(keys) == 0 || keys[0] != k {
			keys = append(keys, k)
		}
	}
	if isErrorType(rt) && cc.Method.Name() == "Error" {
		keys = append(keys, "(error).Error")
	}
	for _, k := range keys {
		if fc := e.w.Contract[k]; fc != nil {
			return e.applyContract(fr, st, fc, args, cc.Signature(), pos)
		}
		if m, ok := models[k]; ok {
			e.sc.used["model:"+k] = true
			e.countCall(st, k)
			r := m(e, fr, st, args, cc, pos)
			e.noteSucc(st, k, r, cc.Signature())
			return r
		}
	}
	return e.libDefault(fr, st, keys[0], args, cc.Signature(), pos)
}

// noteSucc: succeeded("key") for calls answered by a library model (contract applications and the
// library default keep the flag themselves): did the call return a nil error?
func (e *Exec) noteSucc(st *State, key string, res Val, sig *types.Signature) {
	if e.lastretNamed[key] && sig != nil && sig.Results().Len() > 0 {
		first := res
		if res.Tuple != nil {
			first = res.Tuple[0]
		}
		if first.T != "" {
			e.hset(st, e.heapMap("GS_ret."+sanitize(key), e.sc.sortOf(sig.Results().At(0).Type())), first.T)
		}
	}
	if !e.succNamed[key] || sig == nil || sig.Results().Len() == 0 {
		return
	}
	if !isErrorType(sig.Results().At(sig.Results().Len() - 1).Type()) {
		return
	}
	last := res
	if res.Tuple != nil {
		last = res.Tuple[len(res.Tuple)-1]
	}
	if last.T == "" {
		return
	}
	e.hset(st, e.succFlag(key), eq(last.T, "nil_iface"))
}

func (e *Exec) callStatic(fr *Frame, st *State, fn *ssa.Function, bind []Val, args []Val, cc *ssa.CallCommon, pos token.Pos) Val {
	key := fullKeyOfFunc(fn)
	return e.callKey(fr, st, key, fn, bind, args, fn.Signature, cc, pos)
}

func (e *Exec) callKey(fr *Frame, st *State, key string, fn *ssa.Function, bind []Val, args []Val, sig *types.Signature, cc *ssa.CallCommon, pos token.Pos) Val {
	if fn != nil && fn.Signature.Recv() != nil && len(args) > 0 {
		// pointer receivers must not be nil
		if _, ok := fn.Signature.Recv().Type().(*types.Pointer); ok {
			if args[0].Loc == nil && !args[0].NonNil && e.isModelStruct(fn.Signature.Recv().Type().(*types.Pointer).Elem()) {
				e.nilCheck(fr, st, args[0], pos)
			}
		}
	}
	if fn != nil && fn.Pkg != nil && fn.Parent() == nil && fn.Signature.Recv() == nil {
		if p := e.w.Pkgs[fn.Pkg.Pkg.Path()]; p != nil {
			// ghost prelude / user ghost functions called from lemma code
			if g, ok := p.ghostDecl[fn.Name()]; ok && g.Expr != nil {
				nb := map[string]Val{}
				for i, pn := range g.Params {
					if i < len(args) {
						nb[pn] = args[i]
					}
				}
				env := &SpecEnv{e: e, fr: fr, st: st, old: fr.entry, vars: map[string]Val{}, oldVars: map[string]Val{}, bound: nb, pkg: g.Pkg}
				savedDual := e.dual
				e.dual = usedOnlyByAssume(e.curCall)
				defer func() { e.dual = savedDual }()
				r := e.sx(env, g.Expr)
				return Val{T: e.mat(env, r), Typ: sig.Results().At(0).Type()}
			}
			if e.w.Fset.Position(fn.Pos()).Filename == e.w.Fset.Position(p.GhostFile.Pos()).Filename {
				switch fn.Name() {
				case "assert":
					e.sc.oblig(st.reach, args[0].T, fmt.Sprintf("%s#assert.%d", e.unit, e.nextCount("assert")), "assert", "lemma assertion", e.pos(pos))
					e.sc.assume(st.reach, args[0].T)
					return Val{T: "0"}
				case "assume":
					e.sc.assume(st.reach, args[0].T)
					e.sc.used[fmt.Sprintf("lemma assumption at %s (states the scenario the lemma is about)", e.pos(pos))] = true
					return Val{T: "0"}
				}
			}
		}
	}
	if fc := e.w.Contract[key]; fc != nil {
		if fc.Flags["inline"] != "" && fn != nil && len(fn.Blocks) > 0 {
			e.countCall(st, fc.Key)
			return e.inlineCall(fr, st, fn, bind, args, pos)
		}
		return e.applyContract(fr, st, fc, args, sig, pos)
	}
	if m, ok := models[key]; ok {
		e.sc.used["model:"+key] = true
		e.countCall(st, key)
		r := m(e, fr, st, args, cc, pos)
		e.noteSucc(st, key, r, sig)
		return r
	}
	if fn != nil && len(fn.Blocks) > 0 && fn.Pkg != nil && e.sc.isRepoPkg(fn.Pkg.Pkg) {
		// closures have no API of their own: execute in place. Tiny helpers likewise.
		if fn.Parent() != nil || e.autoInline(fn) {
			return e.inlineCall(fr, st, fn, bind, args, pos)
		}
		e.sc.uncontracted[fmt.Sprintf("%s (repository function without contract: everything havocked)", key)] = true
		e.havocAll(st)
		return e.resultVal(st, "res."+fn.Name(), sig)
	}
	if fn != nil && fn.Pkg != nil && e.sc.isRepoPkg(fn.Pkg.Pkg) {
		// a function of another package of the repository, no contract
		e.sc.uncontracted[fmt.Sprintf("%s (repository function without contract: everything havocked)", key)] = true
		e.havocAll(st)
		return e.resultVal(st, "res."+fn.Name(), sig)
	}
	return e.libDefault(fr, st, key, args, sig, pos)
}

// autoInline: straight-line helpers of at most a few instructions (getters, atomic wrappers).
func (e *Exec) autoInline(fn *ssa.Function) bool {
	if len(fn.Blocks) != 1 {
		return false
	}
	n := 0
	for _, in := range fn.Blocks[0].Instrs {
		switch in.(type) {
		case *ssa.DebugRef:
		default:
			n++
		}
	}
	return n <= 14
}

func (e *Exec) inlineTarget(cc *ssa.CallCommon) *ssa.Function {
	if cc.IsInvoke() {
		return nil
	}
	var fn *ssa.Function
	switch c := cc.Value.(type) {
	case *ssa.Function:
		fn = c
	case *ssa.MakeClosure:
		fn, _ = c.Fn.(*ssa.Function)
	}
	if fn == nil || len(fn.Blocks) == 0 || fn.Pkg == nil || !e.sc.isRepoPkg(fn.Pkg.Pkg) {
		return nil
	}
	key := fullKeyOfFunc(fn)
	if fc := e.w.Contract[key]; fc != nil {
		if fc.Flags["inline"] != "" {
			return fn
		}
		return nil
	}
	if _, ok := models[key]; ok {
		return nil
	}
	if fn.Parent() != nil || e.autoInline(fn) {
		return fn
	}
	return nil
}

func (e *Exec) inlineCall(fr *Frame, st *State, fn *ssa.Function, bind []Val, args []Val, pos token.Pos) Val {
	if e.inlineDepth >= maxInlineDepth {
		e.sc.uncontracted[fmt.Sprintf("%s (inline depth exceeded: everything havocked)", fn.Name())] = true
		e.havocAll(st)
		return e.resultVal(st, "res."+fn.Name(), fn.Signature)
	}
	e.inlineDepth++
	defer func() { e.inlineDepth-- }()
	nf := e.newFrame(fn, false)
	nf.entry = fr.entry
	nf.depth = fr.depth + 1
	nf.outer = fr
	for i, p := range fn.Params {
		if i < len(args) {
			a := args[i]
			a.Typ = p.Type()
			nf.regs[p] = a
			nf.params[p.Name()] = a
		}
	}
	for i, fv := range fn.FreeVars {
		if i < len(bind) {
			nf.freeVars[fv] = bind[i]
		}
	}
	// the enclosing function's parameters stay visible to contracts on closures
	for n, v := range fr.params {
		if _, ok := nf.params[n]; !ok {
			nf.params[n] = v
		}
	}
	savedDefers := st.defers
	st.defers = nil
	sub := st.clone()
	out, res := e.runBody(nf, sub)
	if out == nil {
		st.reach = "false"
		return e.resultVal(st, "dead", fn.Signature)
	}
	*st = *out
	st.defers = savedDefers
	switch len(res) {
	case 0:
		return Val{T: "0", Typ: fn.Signature.Results()}
	case 1:
		return res[0]
	}
	return Val{Typ: fn.Signature.Results(), Tuple: res}
}

func (e *Exec) runDefers(fr *Frame, st *State) {
	ds := st.defers
	st.defers = nil
	for i := len(ds) - 1; i >= 0; i-- {
		d := ds[i]
		if st.reach == "false" {
			return
		}
		cc := d.call
		if cc.IsInvoke() {
			args := append([]Val{d.fnv}, d.args...)
			e.callInvoke(fr, st, cc, d.fnv, args, d.pos)
			continue
		}
		switch callee := cc.Value.(type) {
		case *ssa.Builtin:
			e.builtinCall(fr, st, callee.Name(), d.args, cc, d.pos)
		case *ssa.Function:
			e.callStatic(fr, st, callee, nil, d.args, cc, d.pos)
		default:
			if d.fnv.Fn != nil {
				e.callStatic(fr, st, d.fnv.Fn, d.fnv.Bind, d.args, cc, d.pos)
			} else {
				e.sc.uncontracted["deferred dynamic call (everything havocked)"] = true
				e.havocAll(st)
			}
		}
	}
}

func (e *Exec) havocAll(st *State) {
	oldAlloc := e.hget(st, "G_alloc")
	held := e.hget(st, "G_held")
	// user ghost counters (ghostget) are only ever incremented, by contracts: unknown code may raise
	// them but not lower them
	counters := map[string]string{}
	for name, srt := range e.heapSort {
		if strings.HasPrefix(name, "GU_") && srt == "(Array Int Int)" {
			counters[name] = e.hget(st, name)
		}
	}
	flags := map[string]string{}
	for name := range e.heapSort {
		if strings.HasPrefix(name, "GS_") {
			flags[name] = e.hget(st, name)
		}
	}
	var privVals []string
	for _, pb := range st.priv {
		privVals = append(privVals, sel(e.hget(st, pb.heap), pb.ref))
	}
	st.heap = map[string]string{}
	st.base = e.sc.freshName("H")
	for name, t := range flags {
		st.heap[name] = t
	}
	for i, pb := range st.priv {
		e.sc.assume(st.reach, eq(sel(e.hget(st, pb.heap), pb.ref), privVals[i]))
	}
	e.sc.assume(st.reach, "(>= "+e.hget(st, "G_alloc")+" "+oldAlloc+")")
	var cnames []string
	for name := range counters {
		cnames = append(cnames, name)
	}
	sort.Strings(cnames)
	for _, name := range cnames {
		nv := e.hget(st, name)
		e.sc.assume(st.reach, fmt.Sprintf("(forall ((q Int)) (! (>= (select %s q) (select %s q)) :pattern ((select %s q))))", nv, counters[name], nv))
	}
	// the set of held locks belongs to this goroutine; foreign code does not change it
	st.heap["G_held"] = held
}

// libDefault: a library function without contract or model. Havoc what is reachable through the
// arguments (slice contents, pointed-to objects), unconstrained result.
func (e *Exec) libDefault(fr *Frame, st *State, key string, args []Val, sig *types.Signature, pos token.Pos) Val {
	e.sawCallee(key)
	pure := pureLib(key)
	if !pure {
		e.sc.uncontracted[fmt.Sprintf("%s (library function without contract: arguments' referents havocked, result unconstrained)", key)] = true
		for _, a := range args {
			e.havocReachable(st, a)
		}
	} else {
		e.sc.used["pure library function (no effect on verified state): "+key] = true
	}
	res := e.resultVal(st, "lib", sig)
	// path flags succeeded("key") / called("key") / calls("key") also work for library calls named in the contract
	if e.calledNamed[key] {
		e.hset(st, e.calledFlag(key), "true")
	}
	if e.callsNamed[key] {
		c := e.callsCounter(key)
		e.hset(st, c, "(+ "+e.hget(st, c)+" 1)")
	}
	if e.succNamed[key] {
		var last Val
		if res.Tuple != nil {
			last = res.Tuple[len(res.Tuple)-1]
		} else {
			last = res
		}
		if sig.Results().Len() > 0 && isErrorType(sig.Results().At(sig.Results().Len()-1).Type()) {
			e.hset(st, e.succFlag(key), eq(last.T, "nil_iface"))
		}
	}
	return res
}

func (e *Exec) havocReachable(st *State, a Val) {
	if a.Typ == nil {
		return
	}
	switch t := types.Unalias(a.Typ).Underlying().(type) {
	case *types.Slice:
		m := e.elemHeap(t.Elem())
		h := e.hget(st, m)
		n := e.sc.freshConst("havoc.arr", "(Array Int "+e.sc.sortOf(t.Elem())+")")
		e.hset(st, m, sto(h, "(s_arr "+a.T+")", n))
	case *types.Pointer:
		el := t.Elem()
		if a.Loc != nil {
			l := a.Loc
			v := e.fresh(st, "havoc.loc", l.Typ)
			if l.Kind == LArray {
				at := l.Typ.Underlying().(*types.Array)
				m := e.elemHeap(at.Elem())
				e.hset(st, m, sto(e.hget(st, m), l.Base, e.sc.freshConst("havoc.arr", e.sc.sortOf(l.Typ))))
				return
			}
			e.store(st, l, v.T)
			return
		}
		if e.isModelStruct(el) {
			v := e.sc.freshConst("havoc.obj", e.sc.sortOf(el))
			e.sc.assume(st.reach, e.sc.rangeFact(v, el))
			e.storeStruct(st, a.T, el, v)
		}
	}
}

var pureLibPrefixes = []string{
	"github.com/sirupsen/logrus.", "(*github.com/sirupsen/logrus.", "(github.com/sirupsen/logrus.",
	"fmt.Errorf", "fmt.Sprintf", "fmt.Sprint", "errors.New", "errors.Is", "(error).Error",
	"time.Now", "time.Sleep", "time.Since", "time.Until", "time.AfterFunc", "(*time.Timer).Stop",
	"encoding/base64.", "(*encoding/base64.Encoding).EncodeToString", "(*encoding/base64.Encoding).DecodeString",
	"github.com/gorilla/mux.Vars", "encoding/json.NewDecoder", "encoding/json.Marshal", "(net.IP).String",
	"strings.", "net.JoinHostPort", "net.SplitHostPort", "(net.Addr).String", "(net.Addr).Network",
	"(net.Conn).RemoteAddr", "(net.Conn).LocalAddr", "(net.Conn).SetReadDeadline", "(net.Conn).SetDeadline", "(net.Conn).SetWriteDeadline",
	"strconv.", "math/big.NewInt", "(time.Time).", "(time.Duration).",
}

func pureLib(key string) bool {
	for _, p := range pureLibPrefixes {
		if strings.HasPrefix(key, p) {
			return true
		}
	}
	return false
}

// ---------- contracts at call sites ----------

func (e *Exec) contractNames(fc *FuncContract, sig *types.Signature) (ps, rs []string) {
	return fc.PNames, fc.RNames
}

func (e *Exec) applyContract(fr *Frame, st *State, fc *FuncContract, args []Val, sig *types.Signature, pos token.Pos) Val {
	ps, rs := e.contractNames(fc, sig)
	vars := map[string]Val{}
	for i, n := range ps {
		if i < len(args) {
			a := args[i]
			if a.Loc != nil && (a.Loc.Kind == LField || a.Loc.Kind == LElem || a.Loc.Kind == LCell || a.Loc.Kind == LGlobal) {
				// pointer to a field / local passed to a contracted function: copy-in / copy-out through a box
				a = e.boxCopyIn(st, a)
				args[i] = a
			}
			vars[n] = a
		}
	}
	e.sc.used["contract:"+fc.FullKey] = true
	e.sawCallee(fc.Key)
	if fc.Flags["noframe"] != "" && len(fc.ModClauses) > 0 {
		e.sc.used["the modifies clause of "+fc.FullKey+" is assumed, not checked (flag noframe)"] = true
	}
	env := &SpecEnv{e: e, fr: fr, st: st, old: st, vars: vars, oldVars: vars}
	for _, c := range fc.Requires {
		f := e.specBool(env, c)
		e.sc.oblig(st.reach, f, fmt.Sprintf("%s#pre.%s.%s", e.unit, shortKey(fc.Key), c.Label)+e.siteSuffix("pre."+shortKey(fc.Key)+"."+c.Label), "pre", fmt.Sprintf("precondition of %s: %s", fc.Key, c.Text), e.pos(pos))
		e.sc.assume(st.reach, f)
	}
	pre := st.clone()
	e.preAlloc = e.hget(st, "G_alloc")
	// allocation only grows (done first: facts about havocked locations refer to the new bound)
	e.hhavoc(st, "G_alloc")
	e.sc.assume(st.reach, "(>= "+e.hget(st, "G_alloc")+" "+e.hget(pre, "G_alloc")+")")
	e.applyModifies(env, fc, st)
	res := e.resultVal(st, "res."+shortKey(fc.Key), sig)
	env2 := &SpecEnv{e: e, fr: fr, st: st, old: pre, vars: map[string]Val{}, oldVars: vars}
	for k, v := range vars {
		env2.vars[k] = v
	}
	var resList []Val
	if res.Tuple != nil {
		resList = res.Tuple
	} else if sig.Results().Len() == 1 {
		resList = []Val{res}
	}
	for i, n := range rs {
		if i < len(resList) {
			env2.vars[n] = resList[i]
		}
	}
	env2.results = resList
	for _, c := range fc.Ensures {
		e.sc.assume(st.reach, e.specBoolA(env2, c))
	}
	// path fact for succeeded("F"): did the most recent call of F return a nil error?
	if n := len(resList); n > 0 && isErrorType(resList[n-1].Typ) {
		e.hset(st, e.succFlag(fc.Key), eq(resList[n-1].T, "nil_iface"))
	}
	if e.calledNamed[fc.Key] {
		e.hset(st, e.calledFlag(fc.Key), "true")
	}
	if e.callsNamed[fc.Key] {
		c := e.callsCounter(fc.Key)
		e.hset(st, c, "(+ "+e.hget(st, c)+" 1)")
	}
	if e.lastretNamed[fc.Key] && len(resList) > 0 && resList[0].T != "" {
		e.hset(st, e.heapMap("GS_ret."+sanitize(fc.Key), e.sc.sortOf(resList[0].Typ)), resList[0].T)
	}
	e.boxCopyOut(st, args)
	return res
}

// succFlag: ghost scalar "the most recent call of the contracted function KEY in this goroutine
// returned a nil error" (false before any call). A fact about the path, not about shared memory:
// foreign code does not change it.
func (e *Exec) succFlag(key string) string { return e.pathFlag("succ", key) }

// calledFlag: "the contracted function KEY has been called on this path" (for called("KEY")).
func (e *Exec) calledFlag(key string) string { return e.pathFlag("called", key) }

// countEffects: the path counters / flags a call of key updates, added to its effect set.
func (e *Exec) countEffects(key string, eff []string) []string {
	if e.succNamed[key] {
		eff = append(eff, e.succFlag(key))
	}
	if e.callsNamed[key] {
		eff = append(eff, e.callsCounter(key))
	}
	if e.calledNamed[key] {
		eff = append(eff, e.calledFlag(key))
	}
	return eff
}

// countCall: calls("key") / called("key") bookkeeping for calls that are not contract applications
// (functions executed in place, library models).
func (e *Exec) countCall(st *State, key string) {
	e.sawCallee(key)
	if e.callsNamed[key] {
		c := e.callsCounter(key)
		e.hset(st, c, "(+ "+e.hget(st, c)+" 1)")
	}
	if e.calledNamed[key] {
		e.hset(st, e.calledFlag(key), "true")
	}
}

// callsCounter: "number of calls of the contracted function KEY on this path" (for calls("KEY")).
func (e *Exec) callsCounter(key string) string {
	name := e.heapMap("GS_calls."+sanitize(key), "Int")
	g := name + "@0"
	if !e.sc.declared[g] {
		e.sc.declGlobalConst(g, "Int")
		e.sc.axiom("calls0:"+name, "(= "+g+" 0)")
	}
	return name
}

func (e *Exec) pathFlag(kind, key string) string {
	name := e.heapMap("GS_"+kind+"."+sanitize(key), "Bool")
	g := name + "@0"
	if !e.sc.declared[g] {
		e.sc.declGlobalConst(g, "Bool")
		e.sc.axiom("succ0:"+name, "(not "+g+")")
	}
	return name
}

func (e *Exec) siteSuffix(k string) string {
	key := e.unit + "/" + k
	e.siteCount[key]++
	if e.siteCount[key] == 1 {
		return ""
	}
	return fmt.Sprintf("@%d", e.siteCount[key])
}

func shortKey(k string) string {
	return sanitize(strings.NewReplacer("(", "", ")", "", "*", "").Replace(k))
}

type boxedArg struct {
	loc *Loc
	box *Loc
}

func (e *Exec) boxCopyIn(st *State, a Val) Val {
	l := a.Loc
	ref := e.alloc(st)
	box := &Loc{Kind: LBox, Base: ref, Typ: l.Typ}
	e.store(st, box, e.load(st, l))
	e.pendingBoxes = append(e.pendingBoxes, boxedArg{l, box})
	e.sc.used["pointer to a field or local passed to a contracted callee is modelled by copy-in/copy-out (callee does not retain it)"] = true
	return Val{T: ref, Typ: a.Typ, NonNil: true, Loc: box}
}

func (e *Exec) boxCopyOut(st *State, args []Val) {
	for _, b := range e.pendingBoxes {
		e.store(st, b.loc, e.load(st, b.box))
	}
	e.pendingBoxes = nil
}

// modTarget describes one resolved modifies item.
type modTarget struct {
	heap string
	ref  string // object / array / box / map ref; "" = whole map
	lo   string // for element regions: absolute [lo,hi)
	hi   string
}

func (e *Exec) resolveModifies(env *SpecEnv, fc *FuncContract) (targets []modTarget, all bool) {
	if fc.ModAll {
		return nil, true
	}
	// a contract whose frame is not checked ("flag noframe") and that states none is no licence for
	// its callers to assume that nothing changes: they see "modifies *"
	if fc.Flags["noframe"] != "" && len(fc.ModClauses) == 0 {
		return nil, true
	}
	for _, c := range fc.ModClauses {
		ts := e.resolveModItem(env, c)
		targets = append(targets, ts...)
	}
	return
}

func (e *Exec) structTargets(ref string, t types.Type) []modTarget {
	var out []modTarget
	u := t.Underlying().(*types.Struct)
	for i := 0; i < u.NumFields(); i++ {
		ft := u.Field(i).Type()
		switch e.fieldKindOf(ft) {
		case fkScalar:
			out = append(out, modTarget{heap: e.fieldMap(t, i), ref: ref})
		case fkStruct:
			out = append(out, e.structTargets(app(e.embFun(t, i), ref), ft)...)
		case fkArray:
			out = append(out, modTarget{heap: e.elemHeap(ft.Underlying().(*types.Array).Elem()), ref: app(e.embFun(t, i), ref)})
		}
	}
	return out
}

func (e *Exec) resolveModItem(env *SpecEnv, c *Clause) []modTarget {
	if c.RawMod != "" {
		var out []modTarget
		for _, m := range e.rawModMaps(c) {
			out = append(out, modTarget{heap: m})
		}
		return out
	}
	if c.fn == nil || c.fn.Expr == nil {
		return nil
	}
	saved := env.pkg
	env.pkg = c.fn.Pkg
	defer func() { env.pkg = saved }()
	call, ok := c.fn.Expr.(*ast.CallExpr)
	if !ok || len(call.Args) != 1 {
		e.errorf("%s:%d: bad modifies item", c.File, c.Line)
		return nil
	}
	arg := call.Args[0]
	if inner, ok := arg.(*ast.CallExpr); ok {
		if id, ok := inner.Fun.(*ast.Ident); ok {
			switch id.Name {
			case "elems":
				v := e.sx(env, inner.Args[0])
				switch t := types.Unalias(v.Typ).Underlying().(type) {
				case *types.Slice:
					return []modTarget{{heap: e.elemHeap(t.Elem()), ref: "(s_arr " + v.T + ")", lo: "(s_off " + v.T + ")", hi: "(+ (s_off " + v.T + ") (s_len " + v.T + "))"}}
				case *types.Array:
					if v.Ref != "" {
						return []modTarget{{heap: e.elemHeap(t.Elem()), ref: v.Ref}}
					}
				}
				e.errorf("%s:%d: elems() of non-slice", c.File, c.Line)
				return nil
			case "mapof":
				v := e.sx(env, inner.Args[0])
				mt := types.Unalias(v.Typ).Underlying().(*types.Map)
				mv, md, mc := e.mapHeaps(mt)
				return []modTarget{{heap: mv, ref: v.T}, {heap: md, ref: v.T}, {heap: mc, ref: v.T}}
			case "conn", "connin", "connout", "connclosed", "conndeadline":
				kind := id.Name
				v := e.sx(env, inner.Args[0])
				cid, _ := e.toIntArg(env, v)
				var out []modTarget
				if kind == "conn" || kind == "connin" {
					out = append(out, modTarget{heap: e.heapMap("G_inpos", "(Array Int Int)"), ref: cid})
				}
				if kind == "conn" || kind == "connout" {
					out = append(out, modTarget{heap: e.heapMap("G_outlen", "(Array Int Int)"), ref: cid})
					out = append(out, modTarget{heap: e.heapMap("G_outwrites", "(Array Int Int)"), ref: cid})
					out = append(out, modTarget{heap: e.heapMap("G_out", "(Array Int (Array Int Int))"), ref: cid})
				}
				if kind == "conn" || kind == "connclosed" {
					out = append(out, modTarget{heap: e.heapMap("G_closedconn", "(Array Int Bool)"), ref: cid})
				}
				if kind == "conn" || kind == "conndeadline" {
					out = append(out, modTarget{heap: e.heapMap("G_rdeadline", "(Array Int Int)"), ref: cid})
				}
				return out
			case "lockstate":
				return []modTarget{{heap: "G_held", ref: e.lockID(env, inner.Args[0])}}
			}
		}
	}
	// *p
	if star, ok := arg.(*ast.StarExpr); ok {
		p := e.sx(env, star.X)
		pt := types.Unalias(p.Typ).Underlying().(*types.Pointer)
		el := pt.Elem()
		if e.isModelStruct(el) {
			return e.structTargets(p.T, el)
		}
		if at, ok := el.Underlying().(*types.Array); ok {
			return []modTarget{{heap: e.elemHeap(at.Elem()), ref: p.T}}
		}
		return []modTarget{{heap: e.boxHeap(el), ref: p.T}}
	}
	// x.f
	v := e.sx(env, arg)
	if v.Ref != "" {
		if e.isModelStruct(v.Typ) {
			return e.structTargets(v.Ref, v.Typ)
		}
		if at, ok := types.Unalias(v.Typ).Underlying().(*types.Array); ok {
			return []modTarget{{heap: e.elemHeap(at.Elem()), ref: v.Ref}}
		}
	}
	if l := e.sxAddr(env, arg); l != nil {
		return []modTarget{{heap: l.Map, ref: l.Base}}
	}
	e.errorf("%s:%d: cannot resolve modifies item %s", c.File, c.Line, c.Text)
	return nil
}

func (e *Exec) applyModifies(env *SpecEnv, fc *FuncContract, st *State) {
	targets, all := e.resolveModifies(env, fc)
	if all {
		// "modifies *" with "preserves T.f": those field maps keep their values for every object that
		// existed before the call
		type kept struct{ name, term string }
		var keep []kept
		for _, pc := range fc.Preserves {
			for _, m := range e.rawModMaps(pc) {
				keep = append(keep, kept{m, e.hget(st, m)})
			}
		}
		a0 := e.preAlloc
		if a0 == "" {
			a0 = e.hget(st, "G_alloc")
		}
		e.havocAll(st)
		_ = a0
		for _, k := range keep {
			// the preserved map keeps its term: exact for every pre-existing object; for objects the
			// callee allocates the (unconstrained) pre-state value stands in, i.e. nothing is learnt about them
			st.heap[k.name] = k.term
		}
		return
	}
	pre := env.st
	_ = pre
	for _, t := range targets {
		srt := e.heapSort[t.heap]
		if t.ref == "" {
			e.hhavoc(st, t.heap)
			continue
		}
		h := e.hget(st, t.heap)
		// element sort of the map
		inner := strings.TrimSuffix(strings.TrimPrefix(srt, "(Array Int "), ")")
		n := e.sc.freshConst("mod."+t.heap, inner)
		if et, ok := e.heapElemType[t.heap]; ok && !strings.HasPrefix(t.heap, "E_") {
			e.sc.assume(st.reach, e.sc.rangeFact(n, et))
			e.sc.assume(st.reach, e.allocFact(st, n, et))
		}
		if t.heap == "E_Int" {
			q := e.sc.freshName("q.b")
			e.sc.assume(st.reach, fmt.Sprintf("(forall ((%s Int)) (! (and (<= 0 (select %s %s)) (<= (select %s %s) 255)) :pattern ((select %s %s))))", q, n, q, n, q, n, q))
		}
		if t.lo != "" {
			// only [lo,hi) of the array changes
			oldArr := sel(h, t.ref)
			q := e.sc.freshName("q.j")
			e.sc.assume(st.reach, fmt.Sprintf("(forall ((%s Int)) (! (=> (or (< %s %s) (>= %s %s)) (= (select %s %s) (select %s %s))) :pattern ((select %s %s))))", q, q, t.lo, q, t.hi, n, q, oldArr, q, n, q))
		}
		e.hset(st, t.heap, sto(h, t.ref, n))
	}
}

// callEffects: heap maps a call may write (for loop havoc sets).
func (e *Exec) callEffects(fr *Frame, cc *ssa.CallCommon, depth int) (maps []string, all bool) {
	var key string
	var fn *ssa.Function
	if cc.IsInvoke() {
		rt := types.Unalias(cc.Value.Type())
		if nt, ok := rt.(*types.Named); ok {
			key = fullKeyOfMethod(nt, cc.Method)
			if e.w.Contract[key] == nil {
				if _, ok := models[key]; !ok {
					if r := cc.Method.Type().(*types.Signature).Recv(); r != nil {
						key = fullKeyOfMethod(r.Type(), cc.Method)
					}
				}
			}
		} else if r := cc.Method.Type().(*types.Signature).Recv(); r != nil {
			key = fullKeyOfMethod(r.Type(), cc.Method)
		}
	} else {
		switch c := cc.Value.(type) {
		case *ssa.Builtin:
			switch c.Name() {
			case "append", "copy":
				if len(cc.Args) > 0 {
					if sl, ok := types.Unalias(cc.Args[0].Type()).Underlying().(*types.Slice); ok {
						return []string{e.elemHeap(sl.Elem()), "G_alloc"}, false
					}
				}
				return nil, false
			case "delete":
				mt := types.Unalias(cc.Args[0].Type()).Underlying().(*types.Map)
				_, md, mc := e.mapHeaps(mt)
				return []string{md, mc}, false
			}
			return nil, false
		case *ssa.Function:
			fn = c
		case *ssa.MakeClosure:
			fn, _ = c.Fn.(*ssa.Function)
		}
		if fn == nil {
			// function value loaded from a global (u16, u32): library
			if u, ok := cc.Value.(*ssa.UnOp); ok {
				if g, ok := u.X.(*ssa.Global); ok {
					if k := e.globalFuncValue(g); k != "" {
						key = k
					}
				}
			}
			if key == "" {
				if sig := cc.Signature(); sig.Params().Len() == 0 && sig.Results().Len() == 1 && isTimeTime(sig.Results().At(0).Type()) {
					return []string{e.heapMap("G_clock", "Int"), "G_alloc"}, false
				}
				return nil, true
			}
		} else {
			key = fullKeyOfFunc(fn)
		}
	}
	if fc := e.w.Contract[key]; fc != nil {
		if fc.Flags["inline"] != "" && fn != nil {
			return e.countEffects(fc.Key, nil), false // (the body is visited separately via inlineTarget)
		}
		if fc.ModAll {
			return nil, true
		}
		set := map[string]bool{"G_alloc": true}
		if rs := cc.Signature().Results(); rs.Len() > 0 && isErrorType(rs.At(rs.Len()-1).Type()) {
			set[e.succFlag(fc.Key)] = true
		}
		if e.calledNamed[fc.Key] {
			set[e.calledFlag(fc.Key)] = true
		}
		if e.callsNamed[fc.Key] {
			set[e.callsCounter(fc.Key)] = true
		}
		for _, c := range fc.ModClauses {
			for _, m := range e.staticModMaps(c) {
				set[m] = true
			}
		}
		for m := range set {
			maps = append(maps, m)
		}
		sort.Strings(maps)
		return maps, false
	}
	if eff, ok := modelEffects[key]; ok {
		return e.countEffects(key, eff(e, cc)), false
	}
	if _, ok := models[key]; ok {
		return e.countEffects(key, []string{"G_alloc"}), false
	}
	if fn != nil && len(fn.Blocks) > 0 && fn.Pkg != nil && e.sc.isRepoPkg(fn.Pkg.Pkg) {
		if fn.Parent() != nil || e.autoInline(fn) {
			return nil, false
		}
		return nil, true
	}
	if fn != nil && fn.Pkg != nil && e.sc.isRepoPkg(fn.Pkg.Pkg) {
		return nil, true
	}
	if pureLib(key) {
		return []string{"G_alloc"}, false
	}
	// library default: referents of arguments
	set := map[string]bool{"G_alloc": true}
	if e.calledNamed[key] {
		set[e.calledFlag(key)] = true
	}
	if e.succNamed[key] {
		set[e.succFlag(key)] = true
	}
	if e.callsNamed[key] {
		set[e.callsCounter(key)] = true
	}
	args := cc.Args
	if cc.IsInvoke() {
		args = append([]ssa.Value{cc.Value}, args...)
	}
	for _, a := range args {
		if _, isFA := a.(*ssa.FieldAddr); isFA {
			// pointer to a field (e.g. a library struct held by value): that field's map
			for _, m := range e.ptrArgMaps(a) {
				set[m] = true
			}
		}
		switch t := types.Unalias(a.Type()).Underlying().(type) {
		case *types.Slice:
			set[e.elemHeap(t.Elem())] = true
		case *types.Pointer:
			if e.isModelStruct(t.Elem()) {
				e.addAllFields(set, t.Elem())
			} else if at, ok := t.Elem().Underlying().(*types.Array); ok {
				set[e.elemHeap(at.Elem())] = true
			} else if !isStructT(t.Elem()) {
				set[e.boxHeap(t.Elem())] = true
			}
		}
	}
	for m := range set {
		maps = append(maps, m)
	}
	sort.Strings(maps)
	return maps, false
}

// staticModMaps: heap maps named by a modifies item, without evaluating it.
func (e *Exec) staticModMaps(c *Clause) []string {
	if c.RawMod != "" {
		return e.rawModMaps(c)
	}
	if c.fn == nil || c.fn.Expr == nil {
		return nil
	}
	info := c.fn.Pkg.Info
	call, ok := c.fn.Expr.(*ast.CallExpr)
	if !ok || len(call.Args) != 1 {
		return nil
	}
	arg := call.Args[0]
	set := map[string]bool{}
	if inner, ok := arg.(*ast.CallExpr); ok {
		if id, ok := inner.Fun.(*ast.Ident); ok {
			t := info.TypeOf(inner.Args[0])
			switch id.Name {
			case "elems":
				switch tt := types.Unalias(t).Underlying().(type) {
				case *types.Slice:
					return []string{e.elemHeap(tt.Elem())}
				case *types.Array:
					return []string{e.elemHeap(tt.Elem())}
				}
			case "mapof":
				mv, md, mc := e.mapHeaps(types.Unalias(t).Underlying().(*types.Map))
				return []string{mv, md, mc}
			case "connin":
				return []string{e.heapMap("G_inpos", "(Array Int Int)")}
			case "connout":
				return []string{e.heapMap("G_outlen", "(Array Int Int)"), e.heapMap("G_outwrites", "(Array Int Int)"), e.heapMap("G_out", "(Array Int (Array Int Int))")}
			case "conn":
				return []string{e.heapMap("G_inpos", "(Array Int Int)"), e.heapMap("G_outlen", "(Array Int Int)"), e.heapMap("G_outwrites", "(Array Int Int)"), e.heapMap("G_out", "(Array Int (Array Int Int))"), e.heapMap("G_closedconn", "(Array Int Bool)")}
			case "lockstate":
				return []string{"G_held"}
			}
		}
	}
	t := info.TypeOf(arg)
	if star, ok := arg.(*ast.StarExpr); ok {
		_ = star
	}
	if t != nil {
		if e.isModelStruct(t) {
			e.addAllFields(set, t)
		} else if at, ok := types.Unalias(t).Underlying().(*types.Array); ok {
			set[e.elemHeap(at.Elem())] = true
		} else if selx, ok := arg.(*ast.SelectorExpr); ok {
			if si, ok := info.Selections[selx]; ok {
				rt := si.Recv()
				idx := si.Index()
				for k, i := range idx {
					if pt, ok := types.Unalias(rt).Underlying().(*types.Pointer); ok {
						rt = pt.Elem()
					}
					u := types.Unalias(rt).Underlying().(*types.Struct)
					if k == len(idx)-1 {
						name := "F_" + structName(rt) + "." + sanitize(u.Field(i).Name())
						set[e.heapMap(name, "(Array Int "+e.sc.sortOf(u.Field(i).Type())+")")] = true
					}
					rt = u.Field(i).Type()
				}
			}
		} else if _, ok := arg.(*ast.StarExpr); ok {
			set[e.boxHeap(t)] = true
		}
	}
	var out []string
	for m := range set {
		out = append(out, m)
	}
	sort.Strings(out)
	return out
}

// globalFuncValue resolves package-level "var u16 = binary.BigEndian.Uint16"-style function variables.
func (e *Exec) globalFuncValue(g *ssa.Global) string {
	if g.Pkg == nil {
		return ""
	}
	p := e.w.Pkgs[g.Pkg.Pkg.Path()]
	if p == nil {
		return ""
	}
	if _, ok := g.Type().(*types.Pointer).Elem().Underlying().(*types.Signature); !ok {
		return ""
	}
	for _, f := range p.PP.Syntax {
		for _, d := range f.Decls {
			gd, ok := d.(*ast.GenDecl)
			if !ok || gd.Tok != token.VAR {
				continue
			}
			for _, sp := range gd.Specs {
				vs := sp.(*ast.ValueSpec)
				for i, nm := range vs.Names {
					if nm.Name != g.Name() || i >= len(vs.Values) {
						continue
					}
					if sel, ok := vs.Values[i].(*ast.SelectorExpr); ok {
						if s, ok := p.PP.TypesInfo.Selections[sel]; ok && s.Kind() == types.MethodVal {
							e.sc.used[fmt.Sprintf("package-level function variable %s.%s is never reassigned", p.PP.Name, g.Name())] = true
							return fullKeyOfMethod(s.Recv(), s.Obj().(*types.Func))
						}
						if fo, ok := p.PP.TypesInfo.Uses[sel.Sel].(*types.Func); ok {
							e.sc.used[fmt.Sprintf("package-level function variable %s.%s is never reassigned", p.PP.Name, g.Name())] = true
							return fo.Pkg().Path() + "." + fo.Name()
						}
					}
				}
			}
		}
	}
	return ""
}

// ---------- builtins ----------

func (e *Exec) builtinCall(fr *Frame, st *State, name string, args []Val, cc *ssa.CallCommon, pos token.Pos) Val {
	intT := types.Typ[types.Int]
	switch name {
	case "len", "cap":
		a := args[0]
		switch t := types.Unalias(a.Typ).Underlying().(type) {
		case *types.Slice:
			if name == "len" {
				return Val{T: "(s_len " + a.T + ")", Typ: intT}
			}
			return Val{T: "(s_cap " + a.T + ")", Typ: intT}
		case *types.Basic:
			return Val{T: "(str_len " + a.T + ")", Typ: intT}
		case *types.Map:
			_, _, mc := e.mapHeaps(t)
			e.checkGuardMap(fr, st, cc.Args[0], pos, false)
			e.mapFacts(st, t, a.T)
			return Val{T: sel(e.hget(st, mc), a.T), Typ: intT}
		case *types.Array:
			return Val{T: fmt.Sprint(t.Len()), Typ: intT}
		case *types.Pointer:
			if at, ok := t.Elem().Underlying().(*types.Array); ok {
				return Val{T: fmt.Sprint(at.Len()), Typ: intT}
			}
		case *types.Chan:
			return e.fresh(st, "chanlen", intT)
		}
	case "append":
		return e.builtinAppend(fr, st, args, cc, pos)
	case "copy":
		return e.builtinCopy(fr, st, args, pos)
	case "delete":
		mt := types.Unalias(args[0].Typ).Underlying().(*types.Map)
		e.checkGuardMap(fr, st, cc.Args[0], pos, true)
		e.mapDelete(st, mt, args[0].T, args[1].T)
		return Val{T: "0"}
	case "panic":
		if e.protected(fr, st) {
			fr.panics = append(fr.panics, st.clone())
		} else {
			e.sc.oblig(st.reach, "false", e.obName("panic"), "safety", "explicit panic is reachable", e.pos(pos))
		}
		st.reach = "false"
		return Val{T: "0"}
	case "recover":
		if st.panicking {
			v := e.fresh(st, "recovered", types.NewInterfaceType(nil, nil))
			e.sc.assume(st.reach, "(not (= "+v.T+" nil_iface))")
			return v
		}
		return Val{T: "nil_iface", Typ: types.NewInterfaceType(nil, nil)}
	case "close":
		// no channel model; the call itself is visible to called("close") / calls("close")
		e.sc.used["close(chan) has no effect in the model (no channel model); only the fact that it is called can be stated"] = true
		e.countCall(st, "close")
		return Val{T: "0"}
	case "min", "max":
		op := "<="
		if name == "max" {
			op = ">="
		}
		return Val{T: ite(app(op, args[0].T, args[1].T), args[0].T, args[1].T), Typ: args[0].Typ}
	case "print", "println":
		return Val{T: "0"}
	case "ssa:deferstack":
		return Val{T: "0", Typ: cc.Signature().Results().At(0).Type(), NonNil: true}
	}
	e.errorf("unsupported builtin %s", name)
	return e.resultVal(st, "builtin", cc.Signature())
}

func (e *Exec) builtinAppend(fr *Frame, st *State, args []Val, cc *ssa.CallCommon, pos token.Pos) Val {
	s, t := args[0], args[1]
	sl := types.Unalias(s.Typ).Underlying().(*types.Slice)
	el := sl.Elem()
	esort := e.sc.sortOf(el)
	m := e.elemHeap(el)
	h := e.hget(st, m)
	var n string
	var tAt func(i string) string
	if _, isStr := types.Unalias(t.Typ).Underlying().(*types.Basic); isStr {
		n = "(str_len " + t.T + ")"
		e.sc.declFun("str_at", []string{"Str", "Int"}, "Int")
		tAt = func(i string) string { return app("str_at", t.T, i) }
	} else {
		n = "(s_len " + t.T + ")"
		tAt = func(i string) string { return sel(sel(h, "(s_arr "+t.T+")"), "(+ (s_off "+t.T+") "+i+")") }
	}
	newArr := e.alloc(st)
	newLen := e.sc.freshName("app.len")
	e.sc.define(newLen, "Int", fmt.Sprintf("(+ (s_len %s) %s)", s.T, n))
	fits := e.sc.freshName("app.fits")
	e.sc.define(fits, "Bool", fmt.Sprintf("(<= %s (s_cap %s))", newLen, s.T))
	newCap := e.sc.freshConst("app.cap", "Int")
	e.sc.assume(st.reach, fmt.Sprintf("(and (>= %s %s) (<= %s 140737488355328))", newCap, newLen, newCap))
	rArr := e.sc.freshName("app.arr")
	e.sc.define(rArr, "Int", ite(fits, "(s_arr "+s.T+")", newArr))
	rOff := e.sc.freshName("app.off")
	e.sc.define(rOff, "Int", ite(fits, "(s_off "+s.T+")", "0"))
	R := e.sc.freshConst("app.R", "(Array Int "+esort+")")
	q := e.sc.freshName("q.i")
	sOld := sel(h, "(s_arr "+s.T+")")
	// absolute-index formulation keeps the patterns simple: R[j]
	e.sc.assume(st.reach, fmt.Sprintf("(forall ((%s Int)) (! (=> (and (<= %s %s) (< %s (+ %s (s_len %s)))) (= (select %s %s) (select %s (+ (s_off %s) (- %s %s))))) :pattern ((select %s %s))))", q, rOff, q, q, rOff, s.T, R, q, sOld, s.T, q, rOff, R, q))
	base2 := e.sc.freshName("app.base2")
	e.sc.define(base2, "Int", fmt.Sprintf("(+ %s (s_len %s))", rOff, s.T))
	e.sc.assume(st.reach, fmt.Sprintf("(forall ((%s Int)) (! (=> (and (<= %s %s) (< %s (+ %s %s))) (= (select %s %s) %s)) :pattern ((select %s %s))))", q, base2, q, q, base2, n, R, q, tAt(fmt.Sprintf("(- %s %s)", q, base2)), R, q))
	e.sc.assume(st.reach, fmt.Sprintf("(=> %s (forall ((%s Int)) (! (=> (or (< %s (+ (s_off %s) (s_len %s))) (>= %s (+ (s_off %s) %s))) (= (select %s %s) (select %s %s))) :pattern ((select %s %s)))))", fits, q, q, s.T, s.T, q, s.T, newLen, R, q, sOld, q, R, q))
	e.hset(st, m, sto(h, rArr, R))
	if isIntElem(el) {
		e.sumAppend(st, sOld, s.T, R, rOff, n)
	}
	res := e.sc.freshName("app.res")
	// appending nothing to a nil slice yields nil
	e.sc.define(res, "Slice", ite(fmt.Sprintf("(and (= (s_arr %s) 0) (= %s 0))", s.T, n), "nil_slice", fmt.Sprintf("(mk_slice %s %s %s %s)", rArr, rOff, newLen, ite(fits, "(s_cap "+s.T+")", newCap))))
	return Val{T: res, Typ: s.Typ}
}

func (e *Exec) builtinCopy(fr *Frame, st *State, args []Val, pos token.Pos) Val {
	d, s := args[0], args[1]
	dl := types.Unalias(d.Typ).Underlying().(*types.Slice)
	el := dl.Elem()
	m := e.elemHeap(el)
	h := e.hget(st, m)
	var slen string
	var sAt func(i string) string
	if _, isStr := types.Unalias(s.Typ).Underlying().(*types.Basic); isStr {
		slen = "(str_len " + s.T + ")"
		e.sc.declFun("str_at", []string{"Str", "Int"}, "Int")
		sAt = func(i string) string { return app("str_at", s.T, i) }
	} else {
		slen = "(s_len " + s.T + ")"
		sAt = func(i string) string { return sel(sel(h, "(s_arr "+s.T+")"), "(+ (s_off "+s.T+") "+i+")") }
	}
	n := e.sc.freshName("copy.n")
	e.sc.define(n, "Int", fmt.Sprintf("(ite (<= (s_len %s) %s) (s_len %s) %s)", d.T, slen, d.T, slen))
	R := e.sc.freshConst("copy.R", "(Array Int "+e.sc.sortOf(el)+")")
	q := e.sc.freshName("q.i")
	dOld := sel(h, "(s_arr "+d.T+")")
	e.sc.assume(st.reach, fmt.Sprintf("(forall ((%s Int)) (! (=> (and (<= (s_off %s) %s) (< %s (+ (s_off %s) %s))) (= (select %s %s) %s)) :pattern ((select %s %s))))", q, d.T, q, q, d.T, n, R, q, sAt(fmt.Sprintf("(- %s (s_off %s))", q, d.T)), R, q))
	e.sc.assume(st.reach, fmt.Sprintf("(forall ((%s Int)) (! (=> (or (< %s (s_off %s)) (>= %s (+ (s_off %s) %s))) (= (select %s %s) (select %s %s))) :pattern ((select %s %s))))", q, q, d.T, q, d.T, n, R, q, dOld, q, R, q))
	e.hset(st, m, ite("(> "+n+" 0)", sto(h, "(s_arr "+d.T+")", R), h))
	return Val{T: n, Typ: types.Typ[types.Int]}
}

// ---------- guarded-by / lock discipline hooks (filled in by locks.go) ----------

func (e *Exec) checkGuard(fr *Frame, st *State, l *Loc, pos token.Pos, write bool) {
	if l.Kind != LField {
		return
	}
	e.guardField(fr, st, l.Map, l.Base, pos, write)
}

func (e *Exec) checkGuardStruct(fr *Frame, st *State, ref string, t types.Type, pos token.Pos) {
}

func (e *Exec) checkGuardMap(fr *Frame, st *State, m ssa.Value, pos token.Pos, write bool) {
}

// rawModMaps resolves "heap:NAME" and "type:T.f" modifies items to heap map names.
func (e *Exec) rawModMaps(c *Clause) []string {
	if strings.HasPrefix(c.RawMod, "heap:") {
		n := strings.TrimPrefix(c.RawMod, "heap:")
		if n == "B_Slice" {
			e.boxHeap(types.NewSlice(types.Typ[types.Byte]))
		}
		// ghost maps have fixed sorts: register on first mention (they may be read only later)
		switch {
		case n == "G_inpos" || n == "G_outlen" || n == "G_outwrites" || n == "G_rdeadline" || strings.HasPrefix(n, "GU_"):
			e.heapMap(n, "(Array Int Int)")
		case n == "G_out":
			e.heapMap(n, "(Array Int (Array Int Int))")
		case n == "G_closedconn":
			e.heapMap(n, "(Array Int Bool)")
		case n == "E_Int":
			e.elemHeap(types.Typ[types.Byte])
		case strings.HasPrefix(n, "GD_"):
			e.dbMaps()
		}
		if _, ok := e.heapSort[n]; !ok {
			return nil // not touched by this unit (yet): nothing to preserve or havoc
		}
		return []string{n}
	}
	tf := strings.TrimPrefix(c.RawMod, "type:")
	i := strings.Index(tf, ".")
	var pkg *Pkg
	for _, p := range e.w.Pkgs {
		if p.Contracts != nil {
			for _, fc := range p.Contracts.Funcs {
				for _, mc := range fc.ModClauses {
					if mc == c {
						pkg = p
					}
				}
				for _, mc := range fc.Preserves {
					if mc == c {
						pkg = p
					}
				}
			}
		}
	}
	if pkg == nil {
		return nil
	}
	tn, ok := pkg.Types.Scope().Lookup(tf[:i]).(*types.TypeName)
	if !ok {
		return nil
	}
	st := tn.Type()
	u, ok := st.Underlying().(*types.Struct)
	if !ok {
		return nil
	}
	for k := 0; k < u.NumFields(); k++ {
		if u.Field(k).Name() == tf[i+1:] {
			set := map[string]bool{}
			switch e.fieldKindOf(u.Field(k).Type()) {
			case fkScalar:
				set[e.fieldMap(st, k)] = true
			case fkStruct:
				e.addAllFields(set, u.Field(k).Type())
			case fkArray:
				set[e.elemHeap(u.Field(k).Type().Underlying().(*types.Array).Elem())] = true
			}
			var out []string
			for m := range set {
				out = append(out, m)
			}
			sort.Strings(out)
			return out
		}
	}
	return nil
}
