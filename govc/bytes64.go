package main

import (
	"fmt"
	"math/big"
	"strings"
)

// byte64Fn(k) names the extraction of byte k (0 = least significant) of a 64-bit value:
//
//	byte64_k(x) = (x div 256^k) mod 256         (definitional axiom)
//
// and comes with the arithmetic lemma that a value below 2^64 is the sum of its eight bytes.
// The lemma is pure linear-integer arithmetic with div/mod by constants; z3 does not find it by
// itself, cvc5 proves it in about two seconds. It is therefore stated as an axiom here and proved
// separately on every check run that uses it (see proveBE64Lemma in check.go).
func (e *Exec) byte64Fn(k int) string {
	name := fmt.Sprintf("byte64_%d", k)
	if !e.sc.declared["byte64!"] {
		e.sc.declared["byte64!"] = true
		var sum []string
		for i := 0; i < 8; i++ {
			n := fmt.Sprintf("byte64_%d", i)
			c := new(big.Int).Lsh(big.NewInt(1), uint(8*i))
			e.sc.declFun(n, []string{"Int"}, "Int")
			e.sc.axiom(n, fmt.Sprintf("(forall ((x Int)) (! (= (%s x) (mod (div x %s) 256)) :pattern ((%s x))))", n, c, n))
			sum = append(sum, fmt.Sprintf("(* %s (%s x))", c, n))
		}
		e.sc.axiom("be64_decomp", fmt.Sprintf("(forall ((x Int)) (! (=> (and (<= 0 x) (< x 18446744073709551616)) (= x (+ %s))) :pattern ((byte64_7 x))))", strings.Join(sum, " ")))
		e.sc.used[be64LemmaNote] = true
	}
	return name
}

const be64LemmaNote = "arithmetic lemma be64_decomp (a value below 2^64 equals the sum of its eight bytes): proved by cvc5 on every run that uses it"

const be64LemmaSMT = `(set-logic ALL)
(declare-const x Int)
(assert (and (<= 0 x) (< x 18446744073709551616)))
(define-fun b ((k Int)) Int (mod (div x k) 256))
(assert (not (= x (+ (* 72057594037927936 (b 72057594037927936)) (* 281474976710656 (b 281474976710656)) (* 1099511627776 (b 1099511627776)) (* 4294967296 (b 4294967296)) (* 16777216 (b 16777216)) (* 65536 (b 65536)) (* 256 (b 256)) (b 1)))))
(check-sat)
`

// shiftedBy8 recognises "(div X 2^(8k))" (k = 1..7) and plain X (k = 0).
func shiftedBy8(t string) (int, string, bool) {
	if strings.HasPrefix(t, "(div ") && strings.HasSuffix(t, ")") {
		body := t[5 : len(t)-1]
		i := strings.LastIndex(body, " ")
		if i < 0 {
			return 0, "", false
		}
		c, ok := new(big.Int).SetString(body[i+1:], 10)
		if !ok {
			return 0, "", false
		}
		for k := 1; k < 8; k++ {
			if c.Cmp(new(big.Int).Lsh(big.NewInt(1), uint(8*k))) == 0 {
				return k, body[:i], true
			}
		}
		return 0, "", false
	}
	if strings.HasPrefix(t, "(") && (strings.HasPrefix(t, "(div") || strings.HasPrefix(t, "(mod") || strings.HasPrefix(t, "(*")) {
		return 0, "", false
	}
	return 0, t, true
}
