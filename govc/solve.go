package main

import (
	"bytes"
	"context"
	"fmt"
	"os"
	"os/exec"
	"path/filepath"
	"runtime"
	"strings"
	"sync"
	"time"
)

type ObResult struct {
	Unit    string  `json:"unit"`
	Name    string  `json:"name"`
	Class   string  `json:"class"`
	Msg     string  `json:"msg"`
	Pos     string  `json:"pos"`
	Status  string  `json:"status"` // proved | refuted | undecided | vacuous | covered
	Solver  string  `json:"solver"`
	TimeS   float64 `json:"time_s"`
	File    string  `json:"smt_file"`
	Output  string  `json:"output,omitempty"`
	IsCover bool    `json:"cover,omitempty"`
}

type solverSpec struct {
	name string
	args func(file string, ms int) []string
}

var solvers = []solverSpec{
	{"z3-new", func(f string, ms int) []string { return []string{"z3-new", "-smt2", fmt.Sprintf("-t:%d", ms), f} }},
	{"z3", func(f string, ms int) []string { return []string{"z3", "-smt2", fmt.Sprintf("-t:%d", ms), f} }},
	{"cvc5", func(f string, ms int) []string {
		return []string{"cvc5", "--lang=smt2", fmt.Sprintf("--tlimit-per=%d", ms), f}
	}},
}

func itemText(it Item) string {
	switch it.Kind {
	case ItDecl:
		return it.Text
	case ItAssume:
		return "(assert " + implies(it.Guard, it.Text) + ")"
	case ItOblig:
		return "(assert " + implies(it.Guard, it.Text) + ")"
	}
	return ""
}

// incrementalScript renders the whole unit as one push/pop script.
func incrementalScript(sc *Script) (string, []int) { return incrementalScriptFor(sc, nil) }

// incrementalScriptFor: only the obligations in want are queried (nil = all); the others are just
// assumed at their position, as always.
func incrementalScriptFor(sc *Script, want map[int]bool) (string, []int) {
	var b strings.Builder
	b.WriteString(sc.prefix())
	var idx []int
	for i, it := range sc.Items {
		switch it.Kind {
		case ItDecl, ItAssume:
			b.WriteString(itemText(it) + "\n")
		case ItOblig:
			if want == nil || want[i] {
				fmt.Fprintf(&b, "(push 1)\n(assert (and %s (not %s)))\n(echo \"@@%d\")\n(check-sat)\n(pop 1)\n", it.Guard, it.Text, i)
			}
			b.WriteString(itemText(it) + "\n")
			idx = append(idx, i)
		case ItCover:
			// cover (vacuity) queries are run separately with a short budget
			idx = append(idx, i)
		}
	}
	return b.String(), idx
}

// singleScript renders obligation k alone, with everything that precedes it.
func singleScript(sc *Script, k int, model bool) string {
	var b strings.Builder
	b.WriteString(sc.prefix())
	for i := 0; i < k; i++ {
		it := sc.Items[i]
		if it.Kind == ItCover {
			continue
		}
		b.WriteString(itemText(it) + "\n")
	}
	it := sc.Items[k]
	if it.Kind == ItCover {
		fmt.Fprintf(&b, "(assert %s)\n(check-sat)\n", it.Guard)
	} else {
		fmt.Fprintf(&b, "(assert (and %s (not %s)))\n(check-sat)\n", it.Guard, it.Text)
	}
	if model {
		b.WriteString("(get-model)\n")
	}
	return b.String()
}

func runSolver(ctx context.Context, sp solverSpec, file string, ms int) (string, float64) {
	return runSolverBudget(ctx, sp, file, ms, ms+3000)
}

// runSolverBudget: ms is the limit per (check-sat), totalMs the limit for the whole process (an
// incremental script holds many queries).
func runSolverBudget(ctx context.Context, sp solverSpec, file string, ms, totalMs int) (string, float64) {
	t0 := time.Now()
	cctx, cancel := context.WithTimeout(ctx, time.Duration(totalMs)*time.Millisecond)
	defer cancel()
	a := sp.args(file, ms)
	cmd := exec.CommandContext(cctx, a[0], a[1:]...)
	var out bytes.Buffer
	cmd.Stdout = &out
	cmd.Stderr = &out
	cmd.Run()
	return out.String(), time.Since(t0).Seconds()
}

func firstVerdict(out string) string {
	for _, ln := range strings.Split(out, "\n") {
		ln = strings.TrimSpace(ln)
		switch ln {
		case "sat", "unsat", "unknown":
			return ln
		}
		if strings.HasPrefix(ln, "(error") {
			return "error: " + ln
		}
	}
	return "timeout"
}

type solveOpts struct {
	outDir     string
	quickMs    int
	fallbackMs int
	sem        chan struct{}
}

// solveUnit discharges all obligations of one script.
func solveUnit(sc *Script, opt solveOpts) []ObResult {
	dir := filepath.Join(opt.outDir, sanitize(sc.Unit))
	os.MkdirAll(dir, 0o755)
	text, idx := incrementalScript(sc)
	incFile := filepath.Join(dir, "unit.smt2")
	os.WriteFile(incFile, []byte(text), 0o644)
	results := map[int]*ObResult{}
	for _, i := range idx {
		it := sc.Items[i]
		results[i] = &ObResult{Unit: sc.Unit, Name: it.Name, Class: it.Class, Msg: it.Msg, Pos: it.Pos, Status: "undecided", File: incFile, IsCover: it.Kind == ItCover}
	}
	// incremental passes, run side by side on the whole unit: z3 (answers most queries at once, or not
	// within any reasonable time) and cvc5 (slower per query, much more robust on the quantified heap
	// facts). What neither settles goes to the stand-alone race below.
	secs := 0.0
	type passOut struct {
		out  string
		secs float64
		name string
	}
	pch := make(chan passOut, 2)
	pctx, pcancel := context.WithCancel(context.Background())
	for pass, sp := range []solverSpec{solvers[0], incrementalCvc5} {
		go func(pass int, sp solverSpec) {
			opt.sem <- struct{}{}
			defer func() { <-opt.sem }()
			perQ, budget := opt.quickMs/2, opt.quickMs*2
			if pass == 0 {
				perQ, budget = opt.quickMs, opt.quickMs+3000
			}
			out, s1 := runSolverBudget(pctx, sp, incFile, scaled(perQ), scaled(budget))
			pch <- passOut{out, s1, sp.name + "(incremental)"}
		}(pass, sp)
	}
	// take the results as they arrive; once everything is proved the slower pass is cancelled
	for k := 0; k < 2; k++ {
		po := <-pch
		if po.secs > secs {
			secs = po.secs
		}
		solveParse(po.out, results, po.name)
		left := 0
		for _, i := range idx {
			if r := results[i]; !r.IsCover && r.Status != "proved" {
				left++
			}
		}
		// a handful of leftovers is cheaper to settle in the stand-alone race than by waiting for cvc5
		if left == 0 || (left < 8 && strings.HasPrefix(po.name, "z3")) {
			pcancel()
		}
	}
	pcancel()
	{
		n := len(idx)
		if n > 0 {
			for _, i := range idx {
				results[i].TimeS = secs / float64(n)
			}
		}
	}
	// Obligations left over: besides the stand-alone race (solveFallback), the whole incremental script is
	// run once more on z3 with three times the per-query limit and a process budget to match. Some
	// obligations (quantified array facts around the AEAD functions) are proved in a second or two in
	// the context of the unit's earlier queries and by no solver stand-alone; if the first pass was cut
	// short - a busy machine - the stand-alone race alone would report them as undecided.
	left := 0
	for _, i := range idx {
		if r := results[i]; !r.IsCover && r.Status != "proved" {
			left++
		}
	}
	var again chan string
	actx, acancel := context.WithCancel(context.Background())
	defer acancel()
	if left > 0 {
		again = make(chan string, 1)
		go func() {
			opt.sem <- struct{}{}
			defer func() { <-opt.sem }()
			out, _ := runSolverBudget(actx, solvers[0], incFile, scaled(opt.quickMs*3), scaled(opt.quickMs*6))
			again <- out
		}()
	}
	out := solveFallback(sc, opt, dir, idx, results)
	stillOpen := false
	for k := range out {
		if !out[k].IsCover && out[k].Status == "undecided" && !noSecondChance[out[k].Name] {
			stillOpen = true
		}
	}
	if !stillOpen {
		// everything was settled by the stand-alone race: the second run is not needed
		acancel()
		again = nil
	}
	if again != nil {
		redo := map[int]*ObResult{}
		for _, i := range idx {
			it := sc.Items[i]
			redo[i] = &ObResult{Status: "undecided", IsCover: it.Kind == ItCover}
		}
		solveParse(<-again, redo, "z3-new(incremental, second run)")
		for k := range out {
			o := &out[k]
			if o.IsCover || o.Status != "undecided" {
				continue
			}
			if k < len(idx) && redo[idx[k]].Status == "proved" {
				o.Status, o.Solver = "proved", redo[idx[k]].Solver
				o.Output += "; proved by the second incremental run"
			}
		}
	}
	return out
}

var incrementalCvc5 = solverSpec{"cvc5", func(f string, ms int) []string {
	return []string{"cvc5", "--lang=smt2", "--incremental", fmt.Sprintf("--tlimit-per=%d", ms), f}
}}

// solveParse reads the verdicts of an incremental run ("@@i" echo before each check-sat).
func solveParse(out string, results map[int]*ObResult, solverName string) {
	lines := strings.Split(out, "\n")
	cur := -1
	for _, ln := range lines {
		ln = strings.TrimSpace(ln)
		if strings.HasPrefix(ln, "@@") {
			fmt.Sscanf(ln[2:], "%d", &cur)
			continue
		}
		if strings.HasPrefix(ln, "\"@@") {
			fmt.Sscanf(strings.Trim(ln, "\"")[2:], "%d", &cur)
			continue
		}
		r, ok := results[cur]
		if !ok {
			continue
		}
		switch ln {
		case "unsat":
			if r.Status == "proved" {
				cur = -1
				continue
			}
			if r.IsCover {
				r.Status = "vacuous"
			} else {
				r.Status = "proved"
			}
			r.Solver = solverName
			cur = -1
		case "sat":
			if r.Status == "proved" || r.Status == "vacuous" {
				// already settled by another pass
				cur = -1
				continue
			}
			if r.IsCover {
				r.Status = "covered"
			} else {
				r.Status = "refuted?"
			}
			r.Solver = solverName
			cur = -1
		case "unknown":
			cur = -1
		default:
			if strings.HasPrefix(ln, "(error") {
				r.Output += ln + "\n"
			}
		}
	}
}

// solveFallback: every obligation not proved by the incremental passes is re-run alone on all solvers.
func solveFallback(sc *Script, opt solveOpts, dir string, idx []int, results map[int]*ObResult) []ObResult {
	var wg sync.WaitGroup
	for _, i := range idx {
		r := results[i]
		if r.Status == "proved" || r.Status == "covered" {
			continue
		}
		wg.Add(1)
		go func(i int, r *ObResult) {
			defer wg.Done()
			file := filepath.Join(dir, fmt.Sprintf("ob%04d.smt2", i))
			os.WriteFile(file, []byte(singleScript(sc, i, true)), 0o644)
			r.File = file
			type res struct {
				solver, verdict, out string
				secs                 float64
			}
			ch := make(chan res, len(solvers))
			ctx, cancel := context.WithCancel(context.Background())
			defer cancel()
			for _, sp := range solvers {
				go func(sp solverSpec) {
					opt.sem <- struct{}{}
					defer func() { <-opt.sem }()
					if ctx.Err() != nil {
						ch <- res{sp.name, "cancelled", "", 0}
						return
					}
					ms := opt.fallbackMs
					if r.IsCover {
						ms = coverMs
					}
					o, s := runSolver(ctx, sp, file, scaled(ms))
					ch <- res{sp.name, firstVerdict(o), o, s}
				}(sp)
			}
			var satRes *res
			var notes []string
			for k := 0; k < len(solvers); k++ {
				x := <-ch
				notes = append(notes, fmt.Sprintf("%s: %s (%.1fs)", x.solver, x.verdict, x.secs))
				if x.verdict == "unsat" {
					if r.IsCover {
						r.Status = "vacuous"
					} else {
						r.Status = "proved"
					}
					r.Solver = x.solver
					r.TimeS += x.secs
					cancel()
					satRes = nil
					r.Output = strings.Join(notes, "; ")
					return
				}
				if x.verdict == "sat" && satRes == nil {
					xx := x
					satRes = &xx
					if r.IsCover {
						break
					}
				}
			}
			if satRes != nil {
				if r.IsCover {
					r.Status = "covered"
				} else {
					r.Status = "refuted"
				}
				r.Solver = satRes.solver
				r.TimeS += satRes.secs
				r.Output = strings.Join(notes, "; ") + "\n" + truncate(satRes.out, 20000)
				return
			}
			if r.IsCover {
				r.Status = "cover-unknown"
				r.Output = strings.Join(notes, "; ")
				return
			}
			if noSecondChance[r.Name] {
				r.Status = "undecided"
				r.Output = strings.Join(notes, "; ")
				return
			}
			// second chance: nothing answered within the budget. On a loaded machine a query that
			// normally takes a few seconds can miss it; before an obligation is reported as undecided
			// (which ends the run with a VIOLATION line) it is tried once more, stand-alone, with three
			// times the budget, on the two solver families side by side.
			ch2 := make(chan res, 2)
			ctx2, cancel2 := context.WithCancel(context.Background())
			defer cancel2()
			second := []solverSpec{solvers[0], solvers[2]}
			for _, sp := range second {
				go func(sp solverSpec) {
					opt.sem <- struct{}{}
					defer func() { <-opt.sem }()
					if ctx2.Err() != nil {
						ch2 <- res{sp.name, "cancelled", "", 0}
						return
					}
					o, s := runSolver(ctx2, sp, file, scaled(opt.fallbackMs*3))
					ch2 <- res{sp.name, firstVerdict(o), o, s}
				}(sp)
			}
			for k := 0; k < len(second); k++ {
				x := <-ch2
				notes = append(notes, fmt.Sprintf("2nd %s: %s (%.1fs)", x.solver, x.verdict, x.secs))
				if x.verdict == "unsat" {
					r.Status, r.Solver = "proved", x.solver+"(second chance)"
					r.TimeS += x.secs
					r.Output = strings.Join(notes, "; ")
					cancel2()
					return
				}
				if x.verdict == "sat" {
					r.Status, r.Solver = "refuted", x.solver
					r.TimeS += x.secs
					r.Output = strings.Join(notes, "; ") + "\n" + truncate(x.out, 20000)
					cancel2()
					return
				}
			}
			r.Status = "undecided"
			r.Output = strings.Join(notes, "; ")
		}(i, r)
	}
	wg.Wait()
	var outRes []ObResult
	for _, i := range idx {
		outRes = append(outRes, *results[i])
	}
	return outRes
}

// loadScale: solver budgets are wall-clock limits, so on a machine that is busy with other work (other
// checks running side by side, a test suite) a query that normally needs a few seconds would miss its
// limit and be reported as undecided - a false alarm. Every budget is therefore stretched by the ratio
// of runnable processes to cores, read when the solver is started (1 on an idle machine, at most 6).
func loadScale() float64 {
	data, err := os.ReadFile("/proc/loadavg")
	if err != nil {
		return 1
	}
	f := strings.Fields(string(data))
	if len(f) < 4 {
		return 1
	}
	var l1 float64
	fmt.Sscanf(f[0], "%f", &l1)
	var run, tot int
	fmt.Sscanf(f[3], "%d/%d", &run, &tot)
	n := float64(runtime.NumCPU())
	x := l1
	if float64(run) > x {
		x = float64(run)
	}
	s := x / n
	if s < 1 {
		s = 1
	}
	if s > 6 {
		s = 6
	}
	return s
}

func scaled(ms int) int { return int(float64(ms) * loadScale()) }

// noSecondChance: obligation names that are expected to stay unproved (known findings)
var noSecondChance = map[string]bool{}

var quickMsGlobal = 10000

// coverMs: time limit of one vacuity (cover) query; raised by the thorough tier
var coverMs = 1500

func truncate(s string, n int) string {
	if len(s) > n {
		return s[:n] + "\n...[truncated]"
	}
	return s
}
