package main

import (
	"bytes"
	"context"
	"fmt"
	"os"
	"os/exec"
	"path/filepath"
	"strings"
	"sync"
	"time"
)

type ObResult struct {
	Unit    string  `json:"unit"`
	Name    string  `json:"name"`
	Class   string  `json:"class"`
	Msg     string  `json:"msg"`
	Pos     string  `json:"pos"`
	Status  string  `json:"status"` // proved | refuted | undecided | vacuous | covered
	Solver  string  `json:"solver"`
	TimeS   float64 `json:"time_s"`
	File    string  `json:"smt_file"`
	Output  string  `json:"output,omitempty"`
	IsCover bool    `json:"cover,omitempty"`
}

type solverSpec struct {
	name string
	args func(file string, ms int) []string
}

var solvers = []solverSpec{
	{"z3-new", func(f string, ms int) []string { return []string{"z3-new", "-smt2", fmt.Sprintf("-t:%d", ms), f} }},
	{"z3", func(f string, ms int) []string { return []string{"z3", "-smt2", fmt.Sprintf("-t:%d", ms), f} }},
	{"cvc5", func(f string, ms int) []string {
		return []string{"cvc5", "--lang=smt2", fmt.Sprintf("--tlimit-per=%d", ms), f}
	}},
}

func itemText(it Item) string {
	switch it.Kind {
	case ItDecl:
		return it.Text
	case ItAssume:
		return "(assert " + implies(it.Guard, it.Text) + ")"
	case ItOblig:
		return "(assert " + implies(it.Guard, it.Text) + ")"
	}
	return ""
}

// incrementalScript renders the whole unit as one push/pop script.
func incrementalScript(sc *Script) (string, []int) { return incrementalScriptFor(sc, nil) }

// incrementalScriptFor: only the obligations in want are queried (nil = all); the others are just
// assumed at their position, as always.
func incrementalScriptFor(sc *Script, want map[int]bool) (string, []int) {
	var b strings.Builder
	b.WriteString(sc.prefix())
	var idx []int
	for i, it := range sc.Items {
		switch it.Kind {
		case ItDecl, ItAssume:
			b.WriteString(itemText(it) + "\n")
		case ItOblig:
			if want == nil || want[i] {
				fmt.Fprintf(&b, "(push 1)\n(assert (and %s (not %s)))\n(echo \"@@%d\")\n(check-sat)\n(pop 1)\n", it.Guard, it.Text, i)
			}
			b.WriteString(itemText(it) + "\n")
			idx = append(idx, i)
		case ItCover:
			// cover (vacuity) queries are run separately with a short budget
			idx = append(idx, i)
		}
	}
	return b.String(), idx
}

// singleScript renders obligation k alone, with everything that precedes it.
func singleScript(sc *Script, k int, model bool) string {
	var b strings.Builder
	b.WriteString(sc.prefix())
	for i := 0; i < k; i++ {
		it := sc.Items[i]
		if it.Kind == ItCover {
			continue
		}
		b.WriteString(itemText(it) + "\n")
	}
	it := sc.Items[k]
	if it.Kind == ItCover {
		fmt.Fprintf(&b, "(assert %s)\n(check-sat)\n", it.Guard)
	} else {
		fmt.Fprintf(&b, "(assert (and %s (not %s)))\n(check-sat)\n", it.Guard, it.Text)
	}
	if model {
		b.WriteString("(get-model)\n")
	}
	return b.String()
}

func runSolver(ctx context.Context, sp solverSpec, file string, ms int) (string, float64) {
	return runSolverBudget(ctx, sp, file, ms, ms+3000)
}

// runSolverBudget: ms is the limit per (check-sat), totalMs the limit for the whole process (an
// incremental script holds many queries).
func runSolverBudget(ctx context.Context, sp solverSpec, file string, ms, totalMs int) (string, float64) {
	t0 := time.Now()
	cctx, cancel := context.WithTimeout(ctx, time.Duration(totalMs)*time.Millisecond)
	defer cancel()
	a := sp.args(file, ms)
	cmd := exec.CommandContext(cctx, a[0], a[1:]...)
	var out bytes.Buffer
	cmd.Stdout = &out
	cmd.Stderr = &out
	cmd.Run()
	return out.String(), time.Since(t0).Seconds()
}

func firstVerdict(out string) string {
	for _, ln := range strings.Split(out, "\n") {
		ln = strings.TrimSpace(ln)
		switch ln {
		case "sat", "unsat", "unknown":
			return ln
		}
		if strings.HasPrefix(ln, "(error") {
			return "error: " + ln
		}
	}
	return "timeout"
}

type solveOpts struct {
	outDir     string
	quickMs    int
	fallbackMs int
	sem        chan struct{}
}

// solveUnit discharges all obligations of one script.
func solveUnit(sc *Script, opt solveOpts) []ObResult {
	dir := filepath.Join(opt.outDir, sanitize(sc.Unit))
	os.MkdirAll(dir, 0o755)
	text, idx := incrementalScript(sc)
	incFile := filepath.Join(dir, "unit.smt2")
	os.WriteFile(incFile, []byte(text), 0o644)
	results := map[int]*ObResult{}
	for _, i := range idx {
		it := sc.Items[i]
		results[i] = &ObResult{Unit: sc.Unit, Name: it.Name, Class: it.Class, Msg: it.Msg, Pos: it.Pos, Status: "undecided", File: incFile, IsCover: it.Kind == ItCover}
	}
	// incremental passes, run side by side on the whole unit: z3 (answers most queries at once, or not
	// within any reasonable time) and cvc5 (slower per query, much more robust on the quantified heap
	// facts). What neither settles goes to the stand-alone race below.
	secs := 0.0
	type passOut struct {
		out  string
		secs float64
		name string
	}
	pch := make(chan passOut, 2)
	pctx, pcancel := context.WithCancel(context.Background())
	for pass, sp := range []solverSpec{solvers[0], incrementalCvc5} {
		go func(pass int, sp solverSpec) {
			opt.sem <- struct{}{}
			defer func() { <-opt.sem }()
			perQ, budget := opt.quickMs/2, opt.quickMs*2
			if pass == 0 {
				perQ, budget = opt.quickMs, opt.quickMs+3000
			}
			out, s1 := runSolverBudget(pctx, sp, incFile, perQ, budget)
			pch <- passOut{out, s1, sp.name + "(incremental)"}
		}(pass, sp)
	}
	// take the results as they arrive; once everything is proved the slower pass is cancelled
	for k := 0; k < 2; k++ {
		po := <-pch
		if po.secs > secs {
			secs = po.secs
		}
		solveParse(po.out, results, po.name)
		left := 0
		for _, i := range idx {
			if r := results[i]; !r.IsCover && r.Status != "proved" {
				left++
			}
		}
		// a handful of leftovers is cheaper to settle in the stand-alone race than by waiting for cvc5
		if left == 0 || (left < 8 && strings.HasPrefix(po.name, "z3")) {
			pcancel()
		}
	}
	pcancel()
	{
		n := len(idx)
		if n > 0 {
			for _, i := range idx {
				results[i].TimeS = secs / float64(n)
			}
		}
	}
	return solveFallback(sc, opt, dir, idx, results)
}

var incrementalCvc5 = solverSpec{"cvc5", func(f string, ms int) []string {
	return []string{"cvc5", "--lang=smt2", "--incremental", fmt.Sprintf("--tlimit-per=%d", ms), f}
}}

// solveParse reads the verdicts of an incremental run ("@@i" echo before each check-sat).
func solveParse(out string, results map[int]*ObResult, solverName string) {
	lines := strings.Split(out, "\n")
	cur := -1
	for _, ln := range lines {
		ln = strings.TrimSpace(ln)
		if strings.HasPrefix(ln, "@@") {
			fmt.Sscanf(ln[2:], "%d", &cur)
			continue
		}
		if strings.HasPrefix(ln, "\"@@") {
			fmt.Sscanf(strings.Trim(ln, "\"")[2:], "%d", &cur)
			continue
		}
		r, ok := results[cur]
		if !ok {
			continue
		}
		switch ln {
		case "unsat":
			if r.Status == "proved" {
				cur = -1
				continue
			}
			if r.IsCover {
				r.Status = "vacuous"
			} else {
				r.Status = "proved"
			}
			r.Solver = solverName
			cur = -1
		case "sat":
			if r.Status == "proved" || r.Status == "vacuous" {
				// already settled by another pass
				cur = -1
				continue
			}
			if r.IsCover {
				r.Status = "covered"
			} else {
				r.Status = "refuted?"
			}
			r.Solver = solverName
			cur = -1
		case "unknown":
			cur = -1
		default:
			if strings.HasPrefix(ln, "(error") {
				r.Output += ln + "\n"
			}
		}
	}
}

// solveFallback: every obligation not proved by the incremental passes is re-run alone on all solvers.
func solveFallback(sc *Script, opt solveOpts, dir string, idx []int, results map[int]*ObResult) []ObResult {
	var wg sync.WaitGroup
	for _, i := range idx {
		r := results[i]
		if r.Status == "proved" || r.Status == "covered" {
			continue
		}
		wg.Add(1)
		go func(i int, r *ObResult) {
			defer wg.Done()
			file := filepath.Join(dir, fmt.Sprintf("ob%04d.smt2", i))
			os.WriteFile(file, []byte(singleScript(sc, i, true)), 0o644)
			r.File = file
			type res struct {
				solver, verdict, out string
				secs                 float64
			}
			ch := make(chan res, len(solvers))
			ctx, cancel := context.WithCancel(context.Background())
			defer cancel()
			for _, sp := range solvers {
				go func(sp solverSpec) {
					opt.sem <- struct{}{}
					defer func() { <-opt.sem }()
					if ctx.Err() != nil {
						ch <- res{sp.name, "cancelled", "", 0}
						return
					}
					ms := opt.fallbackMs
					if r.IsCover {
						ms = coverMs
					}
					o, s := runSolver(ctx, sp, file, ms)
					ch <- res{sp.name, firstVerdict(o), o, s}
				}(sp)
			}
			var satRes *res
			var notes []string
			for k := 0; k < len(solvers); k++ {
				x := <-ch
				notes = append(notes, fmt.Sprintf("%s: %s (%.1fs)", x.solver, x.verdict, x.secs))
				if x.verdict == "unsat" {
					if r.IsCover {
						r.Status = "vacuous"
					} else {
						r.Status = "proved"
					}
					r.Solver = x.solver
					r.TimeS += x.secs
					cancel()
					satRes = nil
					r.Output = strings.Join(notes, "; ")
					return
				}
				if x.verdict == "sat" && satRes == nil {
					xx := x
					satRes = &xx
					if r.IsCover {
						break
					}
				}
			}
			if satRes != nil {
				if r.IsCover {
					r.Status = "covered"
				} else {
					r.Status = "refuted"
				}
				r.Solver = satRes.solver
				r.TimeS += satRes.secs
				r.Output = strings.Join(notes, "; ") + "\n" + truncate(satRes.out, 20000)
				return
			}
			if r.IsCover {
				r.Status = "cover-unknown"
			} else {
				r.Status = "undecided"
			}
			r.Output = strings.Join(notes, "; ")
		}(i, r)
	}
	wg.Wait()
	var outRes []ObResult
	for _, i := range idx {
		outRes = append(outRes, *results[i])
	}
	return outRes
}

var quickMsGlobal = 10000

// coverMs: time limit of one vacuity (cover) query; raised by the thorough tier
var coverMs = 1500

func truncate(s string, n int) string {
	if len(s) > n {
		return s[:n] + "\n...[truncated]"
	}
	return s
}
