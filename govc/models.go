package main

// Built-in models of library functions. Each one is an ASSUMED contract of the
// library (never proved); every model that a verification unit actually uses
// is recorded in the evidence under trusted_base ("model:<key>").

import (
	"fmt"
	"go/token"
	"go/types"
	"strings"

	"golang.org/x/tools/go/ssa"
)

var models = map[string]modelFn{}
var modelEffects = map[string]func(e *Exec, cc *ssa.CallCommon) []string{}

func init() {
	boolT := types.Typ[types.Bool]
	intT := types.Typ[types.Int]
	errT := types.Universe.Lookup("error").Type()

	// ----- errors / fmt -----
	nonNilErr := func(e *Exec, fr *Frame, st *State, args []Val, cc *ssa.CallCommon, pos token.Pos) Val {
		v := e.fresh(st, "err", errT)
		e.sc.assume(st.reach, "(not (= "+v.T+" nil_iface))")
		// a freshly made error is none of the package-level sentinel errors
		e.sc.assume(st.reach, "(> (i_val "+v.T+") 0)")
		return v
	}
	// logrus Panic*/Fatal* do not return: the path ends there (deliberate abort, not followed further)
	abort := func(e *Exec, fr *Frame, st *State, args []Val, cc *ssa.CallCommon, pos token.Pos) Val {
		e.sc.used["log.Panic*/log.Fatal* end the path (deliberate abort of the goroutine or process; what follows is not reached)"] = true
		st.reach = "false"
		return Val{T: "0"}
	}
	for _, n := range []string{"Panic", "Panicf", "Panicln", "Fatal", "Fatalf", "Fatalln"} {
		models["github.com/sirupsen/logrus."+n] = abort
		modelEffects["github.com/sirupsen/logrus."+n] = func(e *Exec, cc *ssa.CallCommon) []string { return nil }
	}
	models["errors.New"] = nonNilErr
	models["fmt.Errorf"] = nonNilErr

	// ----- sync.Mutex & friends -----
	lockID := func(e *Exec, a Val) string {
		if a.Loc != nil {
			return e.locAddrTerm(a.Loc)
		}
		if _, ok := types.Unalias(a.Typ).Underlying().(*types.Interface); ok {
			return "(i_val " + a.T + ")"
		}
		return a.T
	}
	acquire := func(e *Exec, fr *Frame, st *State, args []Val, cc *ssa.CallCommon, pos token.Pos) Val {
		id := lockID(e, args[0])
		// state invariant of the ghost lock sets: exclusively held implies held
		e.sc.assume(st.reach, fmt.Sprintf("(=> (select %s %s) (select %s %s))", e.hget(st, e.heapMap("G_heldx", "(Array Int Bool)")), id, e.hget(st, "G_held"), id))
		e.lockAcquire(fr, st, id, args[0], pos)
		// exclusive unless it is a read lock
		shared := false
		if f := cc.StaticCallee(); f != nil && f.Name() == "RLock" {
			shared = true
		}
		hx := e.heapMap("G_heldx", "(Array Int Bool)")
		if !shared {
			e.hset(st, hx, sto(e.hget(st, hx), id, "true"))
		}
		return Val{T: "0"}
	}
	release := func(e *Exec, fr *Frame, st *State, args []Val, cc *ssa.CallCommon, pos token.Pos) Val {
		id := lockID(e, args[0])
		e.lockRelease(fr, st, id, args[0], pos)
		hx := e.heapMap("G_heldx", "(Array Int Bool)")
		e.hset(st, hx, sto(e.hget(st, hx), id, "false"))
		return Val{T: "0"}
	}
	for _, k := range []string{"(*sync.Mutex).Lock", "(*sync.RWMutex).Lock", "(*sync.RWMutex).RLock", "(sync.Locker).Lock"} {
		models[k] = acquire
		modelEffects[k] = func(e *Exec, cc *ssa.CallCommon) []string { return e.lockEffectsFor(cc) }
	}
	for _, k := range []string{"(*sync.Mutex).Unlock", "(*sync.RWMutex).Unlock", "(*sync.RWMutex).RUnlock", "(sync.Locker).Unlock"} {
		models[k] = release
		modelEffects[k] = func(e *Exec, cc *ssa.CallCommon) []string {
			return []string{"G_held", e.heapMap("G_heldx", "(Array Int Bool)")}
		}
	}
	models["sync.NewCond"] = func(e *Exec, fr *Frame, st *State, args []Val, cc *ssa.CallCommon, pos token.Pos) Val {
		ref := e.alloc(st)
		m := e.heapMap("F_sync.Cond.L", "(Array Int Iface)")
		e.hset(st, m, sto(e.hget(st, m), ref, args[0].T))
		return Val{T: ref, Typ: cc.Signature().Results().At(0).Type(), NonNil: true}
	}
	modelEffects["sync.NewCond"] = func(e *Exec, cc *ssa.CallCommon) []string {
		return []string{"G_alloc", e.heapMap("F_sync.Cond.L", "(Array Int Iface)")}
	}
	models["(*sync.Cond).Broadcast"] = func(e *Exec, fr *Frame, st *State, args []Val, cc *ssa.CallCommon, pos token.Pos) Val {
		// ghost counter of wake-ups issued on this condition variable: contracts state "a Broadcast was
		// issued" as broadcasts(c) > old(broadcasts(c))
		m := e.heapMap("GU_broadcasts", "(Array Int Int)")
		h := e.hget(st, m)
		e.hset(st, m, sto(h, args[0].T, "(+ "+sel(h, args[0].T)+" 1)"))
		return Val{T: "0"}
	}
	modelEffects["(*sync.Cond).Broadcast"] = func(e *Exec, cc *ssa.CallCommon) []string {
		return []string{e.heapMap("GU_broadcasts", "(Array Int Int)")}
	}
	models["(*sync.Cond).Signal"] = models["(*sync.Cond).Broadcast"]
	modelEffects["(*sync.Cond).Signal"] = modelEffects["(*sync.Cond).Broadcast"]
	models["(*sync.Cond).Wait"] = func(e *Exec, fr *Frame, st *State, args []Val, cc *ssa.CallCommon, pos token.Pos) Val {
		// release + re-acquire of c.L: everything the lock guards may change in between
		m := e.heapMap("F_sync.Cond.L", "(Array Int Iface)")
		l := sel(e.hget(st, m), args[0].T)
		id := "(i_val " + l + ")"
		lv := Val{T: l, Typ: types.NewInterfaceType(nil, nil), Prov: args[0].Prov + ".L", Root: args[0].Root}
		e.lockRelease(fr, st, id, lv, pos)
		e.lockAcquire(fr, st, id, lv, pos)
		return Val{T: "0"}
	}
	modelEffects["(*sync.Cond).Wait"] = func(e *Exec, cc *ssa.CallCommon) []string { return e.lockEffects() }

	models["(*sync.Once).Do"] = func(e *Exec, fr *Frame, st *State, args []Val, cc *ssa.CallCommon, pos token.Pos) Val {
		// the function runs at most once; either it runs now or it ran before
		if args[1].Fn != nil {
			ran := e.sc.freshConst("once.runs", "Bool")
			a := st.clone()
			a.reach = and(st.reach, ran)
			e.callStatic(fr, a, args[1].Fn, args[1].Bind, nil, cc, pos)
			b := st.clone()
			b.reach = and(st.reach, not(ran))
			if m := e.merge([]*State{a, b}); m != nil {
				d := st.defers
				*st = *m
				st.defers = d
			}
		}
		return Val{T: "0"}
	}
	models["(*sync.Pool).Get"] = func(e *Exec, fr *Frame, st *State, args []Val, cc *ssa.CallCommon, pos token.Pos) Val {
		// Ownership: an object handed out by a pool is referenced by nobody else until it is Put back,
		// so for the caller it is indistinguishable from a fresh object whose contents satisfy the pool
		// invariant. If it is a pointer to a slice, the slice's backing array is owned likewise.
		e.sc.used["sync.Pool ownership: an object obtained from Get is not referenced by anyone else until Put (modelled as a fresh object satisfying the declared pool invariant)"] = true
		r := e.alloc(st)
		r2 := e.alloc(st)
		typ := e.sc.freshConst("pool.typ", "Int")
		e.sc.assume(st.reach, "(not (= "+typ+" 0))")
		bm := e.boxHeap(types.NewSlice(types.Typ[types.Byte]))
		ln := e.sc.freshConst("pool.len", "Int")
		cp := e.sc.freshConst("pool.cap", "Int")
		e.sc.assume(st.reach, fmt.Sprintf("(and (<= 0 %s) (<= %s %s) (<= %s 140737488355328))", ln, ln, cp, cp))
		e.hset(st, bm, sto(e.hget(st, bm), r, fmt.Sprintf("(mk_slice %s 0 %s %s)", r2, ln, cp)))
		v := Val{T: fmt.Sprintf("(mk_iface %s %s)", typ, r), Typ: cc.Signature().Results().At(0).Type()}
		v.Prov = "pool:" + args[0].Prov
		e.poolAssume(fr, st, args[0], v)
		return v
	}
	modelEffects["(*sync.Pool).Get"] = func(e *Exec, cc *ssa.CallCommon) []string {
		return []string{"G_alloc", e.boxHeap(types.NewSlice(types.Typ[types.Byte]))}
	}
	modelEffects["(*sync.Pool).Put"] = func(e *Exec, cc *ssa.CallCommon) []string { return nil }
	models["(*sync.Pool).Put"] = func(e *Exec, fr *Frame, st *State, args []Val, cc *ssa.CallCommon, pos token.Pos) Val {
		e.poolCheck(fr, st, args[0], args[1], pos)
		return Val{T: "0"}
	}
	models["(*sync.WaitGroup).Add"] = func(e *Exec, fr *Frame, st *State, args []Val, cc *ssa.CallCommon, pos token.Pos) Val {
		return Val{T: "0"}
	}
	models["(*sync.WaitGroup).Done"] = models["(*sync.WaitGroup).Add"]
	models["(*sync.WaitGroup).Wait"] = models["(*sync.WaitGroup).Add"]

	// ----- sync/atomic: a single atomic step on the cell; other goroutines may interfere between
	// two steps, which is expressed by "shared" declarations (see locks.go: sharedLoad) -----
	atomicLoc := func(e *Exec, a Val) *Loc { return e.locOf(a) }
	models["sync/atomic.LoadUint32"] = func(e *Exec, fr *Frame, st *State, args []Val, cc *ssa.CallCommon, pos token.Pos) Val {
		l := atomicLoc(e, args[0])
		v := e.sharedLoad(fr, st, l, cc.Signature().Results().At(0).Type())
		return v
	}
	models["sync/atomic.LoadInt64"] = models["sync/atomic.LoadUint32"]
	models["sync/atomic.LoadUint64"] = models["sync/atomic.LoadUint32"]
	models["sync/atomic.LoadInt32"] = models["sync/atomic.LoadUint32"]
	models["sync/atomic.StoreUint32"] = func(e *Exec, fr *Frame, st *State, args []Val, cc *ssa.CallCommon, pos token.Pos) Val {
		l := atomicLoc(e, args[0])
		e.sharedInterfere(fr, st, l)
		e.store(st, l, args[1].T)
		return Val{T: "0"}
	}
	models["sync/atomic.StoreInt64"] = models["sync/atomic.StoreUint32"]
	addModel := func(e *Exec, fr *Frame, st *State, args []Val, cc *ssa.CallCommon, pos token.Pos) Val {
		l := atomicLoc(e, args[0])
		rt := cc.Signature().Results().At(0).Type()
		old := e.sharedLoad(fr, st, l, rt)
		nv := e.sc.freshName("atomic.new")
		e.sc.define(nv, "Int", wrapTo("(+ "+old.T+" "+args[1].T+")", rt))
		e.store(st, l, nv)
		return Val{T: nv, Typ: rt}
	}
	models["sync/atomic.AddUint32"] = addModel
	models["sync/atomic.AddInt64"] = addModel
	models["sync/atomic.AddInt32"] = addModel
	models["sync/atomic.AddUint64"] = addModel
	models["sync/atomic.SwapInt64"] = func(e *Exec, fr *Frame, st *State, args []Val, cc *ssa.CallCommon, pos token.Pos) Val {
		l := atomicLoc(e, args[0])
		rt := cc.Signature().Results().At(0).Type()
		old := e.sharedLoad(fr, st, l, rt)
		e.store(st, l, args[1].T)
		return old
	}
	models["sync/atomic.SwapUint32"] = models["sync/atomic.SwapInt64"]
	models["sync/atomic.CompareAndSwapUint32"] = func(e *Exec, fr *Frame, st *State, args []Val, cc *ssa.CallCommon, pos token.Pos) Val {
		l := atomicLoc(e, args[0])
		old := e.sharedLoad(fr, st, l, types.Typ[types.Uint32])
		ok := e.sc.freshName("cas.ok")
		e.sc.define(ok, "Bool", eq(old.T, args[1].T))
		e.store(st, l, ite(ok, args[2].T, old.T))
		return Val{T: ok, Typ: boolT}
	}
	for _, k := range []string{"LoadUint32", "LoadInt64", "LoadUint64", "LoadInt32", "StoreUint32", "StoreInt64", "AddUint32", "AddInt64", "AddInt32", "AddUint64", "SwapInt64", "SwapUint32", "CompareAndSwapUint32"} {
		modelEffects["sync/atomic."+k] = func(e *Exec, cc *ssa.CallCommon) []string {
			return e.ptrArgMaps(cc.Args[0])
		}
	}
	models["(*sync/atomic.Value).Load"] = func(e *Exec, fr *Frame, st *State, args []Val, cc *ssa.CallCommon, pos token.Pos) Val {
		return e.fresh(st, "atomic.value", cc.Signature().Results().At(0).Type())
	}
	models["(*sync/atomic.Value).Store"] = func(e *Exec, fr *Frame, st *State, args []Val, cc *ssa.CallCommon, pos token.Pos) Val {
		return Val{T: "0"}
	}

	// ----- encoding/binary big endian -----
	beGet := func(n int) modelFn {
		return func(e *Exec, fr *Frame, st *State, args []Val, cc *ssa.CallCommon, pos token.Pos) Val {
			b := args[len(args)-1]
			e.safety(fr, st, fmt.Sprintf("(>= (s_len %s) %d)", b.T, n), "index", fmt.Sprintf("binary.BigEndian.Uint%d needs %d bytes", n*8, n), pos)
			h := e.hget(st, e.elemHeap(types.Typ[types.Byte]))
			arr := sel(h, "(s_arr "+b.T+")")
			var parts []string
			for i := 0; i < n; i++ {
				by := sel(arr, fmt.Sprintf("(+ (s_off %s) %d)", b.T, i))
				e.sc.assume(st.reach, fmt.Sprintf("(and (<= 0 %s) (<= %s 255))", by, by))
				mul := pow2(uint(8 * (n - 1 - i)))
				parts = append(parts, fmt.Sprintf("(* %s %s)", mul, by))
			}
			rt := cc.Signature().Results().At(0).Type()
			name := e.sc.freshName(fmt.Sprintf("be%d", n*8))
			e.sc.define(name, "Int", "(+ "+strings.Join(parts, " ")+")")
			return Val{T: name, Typ: rt}
		}
	}
	bePut := func(n int) modelFn {
		return func(e *Exec, fr *Frame, st *State, args []Val, cc *ssa.CallCommon, pos token.Pos) Val {
			b := args[len(args)-2]
			v := args[len(args)-1]
			e.safety(fr, st, fmt.Sprintf("(>= (s_len %s) %d)", b.T, n), "index", fmt.Sprintf("binary.BigEndian.PutUint%d needs %d bytes", n*8, n), pos)
			m := e.elemHeap(types.Typ[types.Byte])
			h := e.hget(st, m)
			arr := sel(h, "(s_arr "+b.T+")")
			for i := 0; i < n; i++ {
				sh := pow2(uint(8 * (n - 1 - i)))
				bt := fmt.Sprintf("(mod (div %s %s) 256)", v.T, sh)
				if n == 8 {
					bt = app(e.byte64Fn(n-1-i), v.T)
				}
				arr = sto(arr, fmt.Sprintf("(+ (s_off %s) %d)", b.T, i), bt)
			}
			e.hset(st, m, sto(h, "(s_arr "+b.T+")", arr))
			return Val{T: "0"}
		}
	}
	for _, n := range []int{2, 4, 8} {
		models[fmt.Sprintf("(encoding/binary.bigEndian).Uint%d", n*8)] = beGet(n)
		models[fmt.Sprintf("(encoding/binary.bigEndian).PutUint%d", n*8)] = bePut(n)
		modelEffects[fmt.Sprintf("(encoding/binary.bigEndian).PutUint%d", n*8)] = func(e *Exec, cc *ssa.CallCommon) []string {
			return []string{e.elemHeap(types.Typ[types.Byte])}
		}
		modelEffects[fmt.Sprintf("(encoding/binary.bigEndian).Uint%d", n*8)] = func(e *Exec, cc *ssa.CallCommon) []string { return nil }
	}

	// ----- bytes -----
	models["bytes.Equal"] = func(e *Exec, fr *Frame, st *State, args []Val, cc *ssa.CallCommon, pos token.Pos) Val {
		a, b := args[0], args[1]
		h := e.hget(st, e.elemHeap(types.Typ[types.Byte]))
		q := e.sc.freshName("q.i")
		f := fmt.Sprintf("(and (= (s_len %s) (s_len %s)) (forall ((%s Int)) (=> (and (<= 0 %s) (< %s (s_len %s))) (= (select (select %s (s_arr %s)) (+ (s_off %s) %s)) (select (select %s (s_arr %s)) (+ (s_off %s) %s))))))",
			a.T, b.T, q, q, q, a.T, h, a.T, a.T, q, h, b.T, b.T, q)
		n := e.sc.freshName("bytes.eq")
		e.sc.define(n, "Bool", f)
		return Val{T: n, Typ: boolT}
	}
	modelEffects["bytes.Equal"] = func(e *Exec, cc *ssa.CallCommon) []string { return nil }
	models["bytes.Trim"] = func(e *Exec, fr *Frame, st *State, args []Val, cc *ssa.CallCommon, pos token.Pos) Val {
		// result is a sub-slice of the argument
		s := args[0]
		lo := e.sc.freshConst("trim.lo", "Int")
		hi := e.sc.freshConst("trim.hi", "Int")
		e.sc.assume(st.reach, fmt.Sprintf("(and (<= 0 %s) (<= %s %s) (<= %s (s_len %s)))", lo, lo, hi, hi, s.T))
		// position determined by content and cutset (uninterpreted)
		e.sc.declFun("trim_lo", []string{"(Array Int Int)", "Int", "Str"}, "Int")
		e.sc.declFun("trim_hi", []string{"(Array Int Int)", "Int", "Str"}, "Int")
		sq := e.seqOfSlice(st, s.T)
		e.sc.assume(st.reach, fmt.Sprintf("(and (= %s (trim_lo %s (s_len %s) %s)) (= %s (trim_hi %s (s_len %s) %s)))", lo, sq, s.T, args[1].T, hi, sq, s.T, args[1].T))
		n := e.sc.freshName("trim")
		e.sc.define(n, "Slice", fmt.Sprintf("(mk_slice (s_arr %s) (+ (s_off %s) %s) (- %s %s) (- (s_cap %s) %s))", s.T, s.T, lo, hi, lo, s.T, lo))
		return Val{T: n, Typ: s.Typ}
	}
	modelEffects["bytes.Trim"] = func(e *Exec, cc *ssa.CallCommon) []string { return nil }

	// ----- time -----
	models["time.Now"] = func(e *Exec, fr *Frame, st *State, args []Val, cc *ssa.CallCommon, pos token.Pos) Val {
		return Val{T: e.readClock(st), Typ: cc.Signature().Results().At(0).Type()}
	}
	models["time.Unix"] = func(e *Exec, fr *Frame, st *State, args []Val, cc *ssa.CallCommon, pos token.Pos) Val {
		return Val{T: fmt.Sprintf("(+ (* %s 1000000000) %s)", args[0].T, args[1].T), Typ: cc.Signature().Results().At(0).Type()}
	}
	models["(time.Time).Unix"] = func(e *Exec, fr *Frame, st *State, args []Val, cc *ssa.CallCommon, pos token.Pos) Val {
		return Val{T: fmt.Sprintf("(div %s 1000000000)", args[0].T), Typ: types.Typ[types.Int64]}
	}
	models["(time.Time).UTC"] = func(e *Exec, fr *Frame, st *State, args []Val, cc *ssa.CallCommon, pos token.Pos) Val {
		return Val{T: args[0].T, Typ: args[0].Typ}
	}
	models["(time.Time).Add"] = func(e *Exec, fr *Frame, st *State, args []Val, cc *ssa.CallCommon, pos token.Pos) Val {
		return Val{T: fmt.Sprintf("(+ %s %s)", args[0].T, args[1].T), Typ: args[0].Typ}
	}
	models["(time.Time).Before"] = func(e *Exec, fr *Frame, st *State, args []Val, cc *ssa.CallCommon, pos token.Pos) Val {
		return Val{T: fmt.Sprintf("(< %s %s)", args[0].T, args[1].T), Typ: boolT}
	}
	models["(time.Time).After"] = func(e *Exec, fr *Frame, st *State, args []Val, cc *ssa.CallCommon, pos token.Pos) Val {
		return Val{T: fmt.Sprintf("(> %s %s)", args[0].T, args[1].T), Typ: boolT}
	}
	models["(time.Time).IsZero"] = func(e *Exec, fr *Frame, st *State, args []Val, cc *ssa.CallCommon, pos token.Pos) Val {
		return Val{T: fmt.Sprintf("(= %s time_zero)", args[0].T), Typ: boolT}
	}
	models["time.Until"] = func(e *Exec, fr *Frame, st *State, args []Val, cc *ssa.CallCommon, pos token.Pos) Val {
		return e.fresh(st, "until", types.Typ[types.Int64])
	}
	for _, k := range []string{"time.Now", "time.Unix", "(time.Time).Unix", "(time.Time).UTC", "(time.Time).Add", "(time.Time).Before", "(time.Time).After", "(time.Time).IsZero", "time.Until"} {
		modelEffects[k] = func(e *Exec, cc *ssa.CallCommon) []string { return nil }
	}
	modelEffects["time.Now"] = func(e *Exec, cc *ssa.CallCommon) []string { return []string{e.heapMap("G_clock", "Int")} }

	// ----- strings -----
	models["strings.ToLower"] = func(e *Exec, fr *Frame, st *State, args []Val, cc *ssa.CallCommon, pos token.Pos) Val {
		e.sc.declFun("str_lower", []string{"Str"}, "Str")
		e.sc.axiom("str_lower_idem", "(forall ((s Str)) (! (= (str_lower (str_lower s)) (str_lower s)) :pattern ((str_lower s))))")
		e.sc.axiom("str_lower_len", "(forall ((s Str)) (! (= (str_len (str_lower s)) (str_len s)) :pattern ((str_lower s))))")
		return Val{T: app("str_lower", args[0].T), Typ: types.Typ[types.String]}
	}
	modelEffects["strings.ToLower"] = func(e *Exec, cc *ssa.CallCommon) []string { return nil }
	models["strings.EqualFold"] = func(e *Exec, fr *Frame, st *State, args []Val, cc *ssa.CallCommon, pos token.Pos) Val {
		e.sc.declFun("str_lower", []string{"Str"}, "Str")
		return Val{T: eq(app("str_lower", args[0].T), app("str_lower", args[1].T)), Typ: boolT}
	}
	models["net.JoinHostPort"] = func(e *Exec, fr *Frame, st *State, args []Val, cc *ssa.CallCommon, pos token.Pos) Val {
		e.sc.declFun("join_host_port", []string{"Str", "Str"}, "Str")
		return Val{T: app("join_host_port", args[0].T, args[1].T), Typ: types.Typ[types.String]}
	}
	modelEffects["net.JoinHostPort"] = func(e *Exec, cc *ssa.CallCommon) []string { return nil }

	// ----- io / net.Conn over ghost byte streams -----
	models["io.ReadFull"] = func(e *Exec, fr *Frame, st *State, args []Val, cc *ssa.CallCommon, pos token.Pos) Val {
		return e.modelRead(fr, st, args[0], args[1], true)
	}
	models["(net.Conn).Read"] = func(e *Exec, fr *Frame, st *State, args []Val, cc *ssa.CallCommon, pos token.Pos) Val {
		return e.modelRead(fr, st, args[0], args[1], false)
	}
	models["(io.Reader).Read"] = models["(net.Conn).Read"]
	models["(net.Conn).Write"] = func(e *Exec, fr *Frame, st *State, args []Val, cc *ssa.CallCommon, pos token.Pos) Val {
		return e.modelWrite(fr, st, args[0], args[1])
	}
	models["(io.Writer).Write"] = models["(net.Conn).Write"]
	models["(net.Conn).Close"] = func(e *Exec, fr *Frame, st *State, args []Val, cc *ssa.CallCommon, pos token.Pos) Val {
		m := e.heapMap("G_closedconn", "(Array Int Bool)")
		e.hset(st, m, sto(e.hget(st, m), "(i_val "+args[0].T+")", "true"))
		return e.fresh(st, "close.err", errT)
	}
	models["(io.Closer).Close"] = models["(net.Conn).Close"]
	// read deadline of a connection: ghost G_rdeadline[c] (ns; 0 = none armed)
	models["(net.Conn).SetReadDeadline"] = func(e *Exec, fr *Frame, st *State, args []Val, cc *ssa.CallCommon, pos token.Pos) Val {
		m := e.heapMap("G_rdeadline", "(Array Int Int)")
		e.hset(st, m, sto(e.hget(st, m), "(i_val "+args[0].T+")", args[1].T))
		return e.fresh(st, "setdl.err", errT)
	}
	models["(net.Conn).SetDeadline"] = models["(net.Conn).SetReadDeadline"]
	for _, k := range []string{"(net.Conn).SetReadDeadline", "(net.Conn).SetDeadline"} {
		modelEffects[k] = func(e *Exec, cc *ssa.CallCommon) []string {
			return []string{e.heapMap("G_rdeadline", "(Array Int Int)")}
		}
	}
	connEff := func(e *Exec, cc *ssa.CallCommon) []string {
		return []string{e.heapMap("G_inpos", "(Array Int Int)"), e.heapMap("G_outlen", "(Array Int Int)"), e.heapMap("G_outwrites", "(Array Int Int)"),
			e.heapMap("G_out", "(Array Int (Array Int Int))"), e.heapMap("G_closedconn", "(Array Int Bool)"), e.elemHeap(types.Typ[types.Byte])}
	}
	for _, k := range []string{"io.ReadFull", "(net.Conn).Read", "(io.Reader).Read", "(net.Conn).Write", "(io.Writer).Write", "(net.Conn).Close", "(io.Closer).Close"} {
		modelEffects[k] = connEff
	}

	// ----- crypto/rand & friends: arbitrary bytes -----
	models["crypto/rand.Read"] = func(e *Exec, fr *Frame, st *State, args []Val, cc *ssa.CallCommon, pos token.Pos) Val {
		// Go >= 1.24: "Read fills b with cryptographically secure random bytes. It never returns an error,
		// and always fills b entirely."
		e.havocSliceRegion(st, args[0])
		e.sc.used["crypto/rand.Read never returns an error and fills the whole slice (documented behaviour since Go 1.24)"] = true
		return Val{Typ: cc.Signature().Results(), Tuple: []Val{{T: "(s_len " + args[0].T + ")", Typ: intT}, {T: "nil_iface", Typ: errT}}}
	}
	modelEffects["crypto/rand.Read"] = func(e *Exec, cc *ssa.CallCommon) []string {
		return []string{e.elemHeap(types.Typ[types.Byte])}
	}

	// ----- container/heap on sorterHeap-like slices of pointers ordered by an integer key:
	// handled through contracts in the repo (see heapmodel.go) -----
	registerHeapModels()
	registerCryptoModels()
	registerBufferModels()
	registerBoltModels()
}

// readClock: a clock read returns a value not smaller than any earlier read (ghost G_clock, in ns).
func (e *Exec) readClock(st *State) string {
	m := e.heapMap("G_clock", "Int")
	prev := e.hget(st, m)
	v := e.fresh(st, "now", types.Typ[types.Int64])
	e.sc.assume(st.reach, timeSane(v.T))
	e.sc.assume(st.reach, "(>= "+v.T+" "+prev+")")
	e.hset(st, m, v.T)
	e.sc.used["the wall clock is monotone (successive time.Now / WorldState.Now reads do not decrease)"] = true
	return v.T
}

func timeSane(t string) string {
	// |t| < 2^62 ns so that adding durations below 2^61 cannot wrap
	return fmt.Sprintf("(and (< (- 4611686018427387904) %s) (< %s 4611686018427387904))", t, t)
}

func (e *Exec) ptrArgMaps(a ssa.Value) []string {
	switch x := a.(type) {
	case *ssa.FieldAddr:
		st := x.X.Type().Underlying().(*types.Pointer).Elem()
		if e.sc.opaqueStruct(st) {
			u := st.Underlying().(*types.Struct)
			return []string{e.heapMap("F_"+structName(st)+"."+sanitize(u.Field(x.Field).Name()), "(Array Int "+e.sc.sortOf(u.Field(x.Field).Type())+")")}
		}
		return []string{e.fieldMap(st, x.Field)}
	}
	if pt, ok := a.Type().Underlying().(*types.Pointer); ok {
		return []string{e.boxHeap(pt.Elem())}
	}
	return nil
}

func (e *Exec) havocSliceRegion(st *State, s Val) {
	sl := types.Unalias(s.Typ).Underlying().(*types.Slice)
	m := e.elemHeap(sl.Elem())
	h := e.hget(st, m)
	R := e.sc.freshConst("havoc.R", "(Array Int "+e.sc.sortOf(sl.Elem())+")")
	q := e.sc.freshName("q.j")
	old := sel(h, "(s_arr "+s.T+")")
	e.sc.assume(st.reach, fmt.Sprintf("(forall ((%s Int)) (! (=> (or (< %s (s_off %s)) (>= %s (+ (s_off %s) (s_len %s)))) (= (select %s %s) (select %s %s))) :pattern ((select %s %s))))", q, q, s.T, q, s.T, s.T, R, q, old, q, R, q))
	if sl.Elem() == types.Typ[types.Byte] || sl.Elem() == types.Typ[types.Uint8] {
		e.sc.assume(st.reach, fmt.Sprintf("(forall ((%s Int)) (! (and (<= 0 (select %s %s)) (<= (select %s %s) 255)) :pattern ((select %s %s))))", q, R, q, R, q, R, q))
	}
	e.hset(st, m, sto(h, "(s_arr "+s.T+")", R))
}

// modelRead: conn.Read / io.ReadFull over the ghost input stream of the connection.
//
//	G_in[c]   : the (infinite) sequence of bytes the peer sends, fixed
//	G_inpos[c]: how many of them have been consumed
func (e *Exec) modelRead(fr *Frame, st *State, c Val, buf Val, full bool) Val {
	intT := types.Typ[types.Int]
	errT := types.Universe.Lookup("error").Type()
	id := "(i_val " + c.T + ")"
	gin := e.heapMap("G_in", "(Array Int (Array Int Int))")
	gpos := e.heapMap("G_inpos", "(Array Int Int)")
	n := e.fresh(st, "read.n", intT)
	er := e.fresh(st, "read.err", errT)
	pos := sel(e.hget(st, gpos), id)
	if full {
		e.sc.assume(st.reach, fmt.Sprintf("(and (<= 0 %s) (<= %s (s_len %s)) (= (= %s nil_iface) (= %s (s_len %s))))", n.T, n.T, buf.T, er.T, n.T, buf.T))
		// io.ReadFull returns io.EOF only if no bytes were read, ErrUnexpectedEOF otherwise; both non-nil
	} else {
		e.sc.assume(st.reach, fmt.Sprintf("(and (<= 0 %s) (<= %s (s_len %s)))", n.T, n.T, buf.T))
		// a successful Read into a non-empty buffer may return 0 bytes only with an error (io.Reader discourages 0,nil); we do not assume that
	}
	// buffer contents: buf[0:n] = in[pos:pos+n], rest of the array unchanged
	m := e.elemHeap(types.Typ[types.Byte])
	h := e.hget(st, m)
	R := e.sc.freshConst("read.R", "(Array Int Int)")
	q := e.sc.freshName("q.j")
	old := sel(h, "(s_arr "+buf.T+")")
	stream := sel(e.hget(st, gin), id)
	e.sc.assume(st.reach, fmt.Sprintf("(forall ((%s Int)) (! (=> (and (<= (s_off %s) %s) (< %s (+ (s_off %s) %s))) (= (select %s %s) (select %s (+ %s (- %s (s_off %s)))))) :pattern ((select %s %s))))", q, buf.T, q, q, buf.T, n.T, R, q, stream, pos, q, buf.T, R, q))
	e.sc.assume(st.reach, fmt.Sprintf("(forall ((%s Int)) (! (=> (or (< %s (s_off %s)) (>= %s (+ (s_off %s) %s))) (= (select %s %s) (select %s %s))) :pattern ((select %s %s))))", q, q, buf.T, q, buf.T, n.T, R, q, old, q, R, q))
	e.sc.assume(st.reach, fmt.Sprintf("(forall ((%s Int)) (! (and (<= 0 (select %s %s)) (<= (select %s %s) 255)) :pattern ((select %s %s))))", q, stream, q, stream, q, stream, q))
	e.hset(st, m, sto(h, "(s_arr "+buf.T+")", R))
	e.hset(st, gpos, sto(e.hget(st, gpos), id, fmt.Sprintf("(+ %s %s)", pos, n.T)))
	e.sc.assume(st.reach, fmt.Sprintf("(>= %s 0)", pos))
	return Val{Typ: types.NewTuple(types.NewVar(0, nil, "", intT), types.NewVar(0, nil, "", errT)), Tuple: []Val{n, er}}
}

// modelWrite: one conn.Write(b) appends a prefix of b contiguously to the connection's output
// (all of b iff err == nil); G_outwrites counts Write calls.
func (e *Exec) modelWrite(fr *Frame, st *State, c Val, buf Val) Val {
	intT := types.Typ[types.Int]
	errT := types.Universe.Lookup("error").Type()
	id := "(i_val " + c.T + ")"
	gout := e.heapMap("G_out", "(Array Int (Array Int Int))")
	glen := e.heapMap("G_outlen", "(Array Int Int)")
	gw := e.heapMap("G_outwrites", "(Array Int Int)")
	n := e.fresh(st, "write.n", intT)
	er := e.fresh(st, "write.err", errT)
	e.sc.assume(st.reach, fmt.Sprintf("(and (<= 0 %s) (<= %s (s_len %s)) (=> (= %s nil_iface) (= %s (s_len %s))))", n.T, n.T, buf.T, er.T, n.T, buf.T))
	olen := sel(e.hget(st, glen), id)
	e.sc.assume(st.reach, "(>= "+olen+" 0)")
	h := e.hget(st, e.elemHeap(types.Typ[types.Byte]))
	R := e.sc.freshConst("write.R", "(Array Int Int)")
	q := e.sc.freshName("q.j")
	old := sel(e.hget(st, gout), id)
	e.sc.assume(st.reach, fmt.Sprintf("(forall ((%s Int)) (! (=> (and (<= %s %s) (< %s (+ %s %s))) (= (select %s %s) (select (select %s (s_arr %s)) (+ (s_off %s) (- %s %s))))) :pattern ((select %s %s))))", q, olen, q, q, olen, n.T, R, q, h, buf.T, buf.T, q, olen, R, q))
	e.sc.assume(st.reach, fmt.Sprintf("(forall ((%s Int)) (! (=> (< %s %s) (= (select %s %s) (select %s %s))) :pattern ((select %s %s))))", q, q, olen, R, q, old, q, R, q))
	e.hset(st, gout, sto(e.hget(st, gout), id, R))
	e.hset(st, glen, sto(e.hget(st, glen), id, fmt.Sprintf("(+ %s %s)", olen, n.T)))
	e.hset(st, gw, sto(e.hget(st, gw), id, fmt.Sprintf("(+ %s 1)", sel(e.hget(st, gw), id))))
	return Val{Typ: types.NewTuple(types.NewVar(0, nil, "", intT), types.NewVar(0, nil, "", errT)), Tuple: []Val{n, er}}
}
