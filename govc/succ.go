package main

import "regexp"

// succeeded("F") in a contract: the most recent call of the contracted function F on this path
// returned a nil error (see Exec.succFlag).
var succRe = regexp.MustCompile(`succeeded\("([^"]+)"\)`)

// called("F"): the contracted function F has been called on this path.
var calledRe = regexp.MustCompile(`called\("([^"]+)"\)`)

// calls("F"): number of calls of the contracted function F on this path.
var callsRe = regexp.MustCompile(`calls\("([^"]+)"\)`)

// lastret("F"): result of the most recent call of the contracted function F on this path.
var lastretRe = regexp.MustCompile(`lastret(?:Of\[[^(]*\])?\("([^"]+)"\)`)
