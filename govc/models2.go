package main

// Assumed contracts (built-in models) for cryptography, bytes.Buffer and container/heap.

import (
	"fmt"
	"go/token"
	"go/types"

	"golang.org/x/tools/go/ssa"
)


// ---------- cryptography: uninterpreted functions + named axioms ----------
//
//   aead_sem(obj)                      the (algorithm, key) an AEAD object stands for
//   aead_overhead(sem), aead_noncesize(sem)
//   aead_seal(sem, nonce, nlen, pt, plen)  : byte sequence (0 outside [0, plen+overhead))
//   aead_valid(sem, nonce, nlen, ct, clen) : Open succeeds
//   aead_open(sem, nonce, nlen, ct, clen)  : the plaintext Open returns
//   axiom open∘seal = id, seal output is valid
//   salsa_ks(nonce8, key32)            keystream; XORKeyStream is bytewise bxor with it; bxor(bxor(a,k),k) = a
// Byte sequences are position independent: seq(array, off, len) (see seqFun).

func (e *Exec) cryptoDecls() {
	if e.sc.declared["crypto!"] {
		return
	}
	e.sc.declared["crypto!"] = true
	A := "(Array Int Int)"
	e.seqFun()
	e.sc.declFun("uf_aead_sem_1", []string{"Int"}, "Int")
	e.sc.declFun("uf_aead_overhead_1", []string{"Int"}, "Int")
	e.sc.declFun("uf_aead_noncesize_1", []string{"Int"}, "Int")
	e.sc.declFun("uf_aead_seal_5", []string{"Int", A, "Int", A, "Int"}, A)
	e.sc.declFun("uf_aead_valid_5", []string{"Int", A, "Int", A, "Int"}, "Bool")
	e.sc.declFun("uf_aead_open_5", []string{"Int", A, "Int", A, "Int"}, A)
	e.sc.declFun("uf_aead_mk_4", []string{"Int", A, "Int", "Int"}, "Int")
	e.sc.declFun("uf_salsa_ks_3", []string{A, "Int", A}, A)
	e.sc.declFun("uf_bxor_2", []string{"Int", "Int"}, "Int")
	e.sc.axiom("aead_ovh_pos", "(forall ((s Int)) (! (and (>= (uf_aead_overhead_1 s) 0) (>= (uf_aead_noncesize_1 s) 0)) :pattern ((uf_aead_overhead_1 s))))")
	e.sc.axiom("aead_seal_nf", "(forall ((s Int) (n "+A+") (nl Int) (p "+A+") (pl Int) (k Int)) (! (and (=> (or (< k 0) (>= k (+ pl (uf_aead_overhead_1 s)))) (= (select (uf_aead_seal_5 s n nl p pl) k) 0)) (<= 0 (select (uf_aead_seal_5 s n nl p pl) k)) (<= (select (uf_aead_seal_5 s n nl p pl) k) 255)) :pattern ((select (uf_aead_seal_5 s n nl p pl) k))))")
	e.sc.axiom("aead_open_seal", "(forall ((s Int) (n "+A+") (nl Int) (p "+A+") (pl Int)) (! (=> (>= pl 0) (and (uf_aead_valid_5 s n nl (uf_aead_seal_5 s n nl p pl) (+ pl (uf_aead_overhead_1 s))) (forall ((k Int)) (! (=> (and (<= 0 k) (< k pl)) (= (select (uf_aead_open_5 s n nl (uf_aead_seal_5 s n nl p pl) (+ pl (uf_aead_overhead_1 s))) k) (select p k))) :pattern ((select (uf_aead_open_5 s n nl (uf_aead_seal_5 s n nl p pl) (+ pl (uf_aead_overhead_1 s))) k)))))) :pattern ((uf_aead_seal_5 s n nl p pl))))")
	e.sc.axiom("aead_open_bytes", "(forall ((s Int) (n "+A+") (nl Int) (c "+A+") (cl Int) (k Int)) (! (and (<= 0 (select (uf_aead_open_5 s n nl c cl) k)) (<= (select (uf_aead_open_5 s n nl c cl) k) 255)) :pattern ((select (uf_aead_open_5 s n nl c cl) k))))")
	e.sc.axiom("bxor_inv", "(forall ((a Int) (k Int)) (! (=> (and (<= 0 a) (<= a 255)) (= (uf_bxor_2 (uf_bxor_2 a k) k) a)) :pattern ((uf_bxor_2 (uf_bxor_2 a k) k))))")
	e.sc.axiom("bxor_rng", "(forall ((a Int) (k Int)) (! (and (<= 0 (uf_bxor_2 a k)) (<= (uf_bxor_2 a k) 255)) :pattern ((uf_bxor_2 a k))))")
	e.sc.used["axiom: AEAD Open(k,n,Seal(k,n,p)) succeeds and returns p; Seal/Open/keystream are uninterpreted functions of (algorithm,key), nonce bytes and data bytes"] = true
	e.sc.used["axiom: XOR with a keystream byte is an involution on bytes (bxor(bxor(a,k),k) = a)"] = true
}

var withAD func(e *Exec, st *State, sem string, ad Val) string

func registerCryptoModels() {
	intT := types.Typ[types.Int]
	errT := types.Universe.Lookup("error").Type()
	byteT := types.Typ[types.Byte]
	semOf := func(e *Exec, recv Val) string {
		e.cryptoDecls()
		return app("uf_aead_sem_1", "(i_val "+recv.T+")")
	}
	// additional data: sealing/opening with non-empty additional data is a different function of the
	// key than sealing without (the contracts speak about the no-additional-data function only)
	withAD = func(e *Exec, st *State, sem string, ad Val) string {
		e.sc.declFun("uf_aead_ad_3", []string{"Int", "(Array Int Int)", "Int"}, "Int")
		e.sc.axiom("aead_ad", "(forall ((s Int) (a (Array Int Int)) (n Int)) (! (and (= (uf_aead_overhead_1 (uf_aead_ad_3 s a n)) (uf_aead_overhead_1 s)) (= (uf_aead_noncesize_1 (uf_aead_ad_3 s a n)) (uf_aead_noncesize_1 s))) :pattern ((uf_aead_ad_3 s a n))))")
		n := e.sc.freshName("aead.sem")
		e.sc.define(n, "Int", ite("(= (s_len "+ad.T+") 0)", sem, app("uf_aead_ad_3", sem, e.seqOfSlice(st, ad.T), "(s_len "+ad.T+")")))
		return n
	}
	models["(crypto/cipher.AEAD).Overhead"] = func(e *Exec, fr *Frame, st *State, args []Val, cc *ssa.CallCommon, pos token.Pos) Val {
		return Val{T: app("uf_aead_overhead_1", semOf(e, args[0])), Typ: intT}
	}
	models["(crypto/cipher.AEAD).NonceSize"] = func(e *Exec, fr *Frame, st *State, args []Val, cc *ssa.CallCommon, pos token.Pos) Val {
		return Val{T: app("uf_aead_noncesize_1", semOf(e, args[0])), Typ: intT}
	}
	modelEffects["(crypto/cipher.AEAD).Overhead"] = func(e *Exec, cc *ssa.CallCommon) []string { return nil }
	modelEffects["(crypto/cipher.AEAD).NonceSize"] = func(e *Exec, cc *ssa.CallCommon) []string { return nil }

	// appendBytes writes n bytes given by gen(k) behind dst (in place if capacity allows, else into a fresh array)
	appendBytes := func(e *Exec, st *State, dst Val, n string, gen func(k string) string, whole string) string {
		m := e.elemHeap(byteT)
		h := e.hget(st, m)
		newArr := e.alloc(st)
		total := e.sc.freshName("crypto.total")
		e.sc.define(total, "Int", fmt.Sprintf("(+ (s_len %s) %s)", dst.T, n))
		fits := e.sc.freshName("crypto.fits")
		e.sc.define(fits, "Bool", fmt.Sprintf("(<= %s (s_cap %s))", total, dst.T))
		rArr := e.sc.freshName("crypto.arr")
		e.sc.define(rArr, "Int", ite(fits, "(s_arr "+dst.T+")", newArr))
		rOff := e.sc.freshName("crypto.off")
		e.sc.define(rOff, "Int", ite(fits, "(s_off "+dst.T+")", "0"))
		base := e.sc.freshName("crypto.base")
		e.sc.define(base, "Int", fmt.Sprintf("(+ %s (s_len %s))", rOff, dst.T))
		R := e.sc.freshConst("crypto.R", "(Array Int Int)")
		q := e.sc.freshName("q.j")
		old := sel(h, "(s_arr "+dst.T+")")
		e.sc.assume(st.reach, fmt.Sprintf("(forall ((%s Int)) (! (=> (and (<= %s %s) (< %s (+ %s %s))) (= (select %s %s) %s)) :pattern ((select %s %s))))", q, base, q, q, base, n, R, q, gen(fmt.Sprintf("(- %s %s)", q, base)), R, q))
		// the existing prefix of dst is kept (copied on growth); in place: everything outside the written region is unchanged
		e.sc.assume(st.reach, fmt.Sprintf("(forall ((%s Int)) (! (=> (and (<= %s %s) (< %s %s)) (= (select %s %s) (select %s (+ (s_off %s) (- %s %s))))) :pattern ((select %s %s))))", q, rOff, q, q, base, R, q, old, dst.T, q, rOff, R, q))
		e.sc.assume(st.reach, fmt.Sprintf("(=> %s (forall ((%s Int)) (! (=> (or (< %s %s) (>= %s (+ %s %s))) (= (select %s %s) (select %s %s))) :pattern ((select %s %s)))))", fits, q, q, base, q, base, n, R, q, old, q, R, q))
		e.hset(st, m, sto(h, rArr, R))
		if whole != "" {
			// derived fact (follows from the two facts above and the normal form of the sequence): the
			// written region, read back as a sequence, is the whole output
			e.sc.assume(st.reach, fmt.Sprintf("(=> (>= %s 0) (= (seq %s %s %s) %s))", n, R, base, n, whole))
		}
		newCap := e.sc.freshConst("crypto.cap", "Int")
		e.sc.assume(st.reach, fmt.Sprintf("(and (>= %s %s) (<= %s 140737488355328))", newCap, total, newCap))
		res := e.sc.freshName("crypto.res")
		e.sc.define(res, "Slice", fmt.Sprintf("(mk_slice %s %s %s %s)", rArr, rOff, total, ite(fits, "(s_cap "+dst.T+")", newCap)))
		return res
	}
	overlapOK := func(dst, src Val, n string) string {
		// crypto/cipher requires exact overlap or none between the output region and the input
		return fmt.Sprintf("(or (and (= (s_arr %s) (s_arr %s)) (= (+ (s_off %s) (s_len %s)) (s_off %s))) (not (= (s_arr %s) (s_arr %s))) (<= (+ (s_off %s) (s_len %s) %s) (s_off %s)) (<= (+ (s_off %s) (s_len %s)) (+ (s_off %s) (s_len %s))) (> (+ (s_len %s) %s) (s_cap %s)))",
			dst.T, src.T, dst.T, dst.T, src.T, dst.T, src.T, dst.T, dst.T, n, src.T, src.T, src.T, dst.T, dst.T, dst.T, n, dst.T)
	}
	models["(crypto/cipher.AEAD).Seal"] = func(e *Exec, fr *Frame, st *State, args []Val, cc *ssa.CallCommon, pos token.Pos) Val {
		sem := withAD(e, st, semOf(e, args[0]), args[4])
		dst, nonce, pt := args[1], args[2], args[3]
		e.safety(fr, st, fmt.Sprintf("(= (s_len %s) (uf_aead_noncesize_1 %s))", nonce.T, sem), "aead-nonce", "AEAD.Seal panics unless len(nonce) == NonceSize()", pos)
		n := e.sc.freshName("seal.n")
		e.sc.define(n, "Int", fmt.Sprintf("(+ (s_len %s) (uf_aead_overhead_1 %s))", pt.T, sem))
		e.safety(fr, st, overlapOK(dst, pt, n), "aead-overlap", "AEAD.Seal panics on inexact overlap of dst and plaintext", pos)
		ct := e.sc.freshName("seal.ct")
		e.sc.define(ct, "(Array Int Int)", app("uf_aead_seal_5", sem, e.seqOfSlice(st, nonce.T), "(s_len "+nonce.T+")", e.seqOfSlice(st, pt.T), "(s_len "+pt.T+")"))
		e.seqLit(st, nonce, 12)
		res := appendBytes(e, st, dst, n, func(k string) string { return sel(ct, k) }, ct)
		return Val{T: res, Typ: cc.Signature().Results().At(0).Type()}
	}
	models["(crypto/cipher.AEAD).Open"] = func(e *Exec, fr *Frame, st *State, args []Val, cc *ssa.CallCommon, pos token.Pos) Val {
		sem := withAD(e, st, semOf(e, args[0]), args[4])
		dst, nonce, ct := args[1], args[2], args[3]
		e.safety(fr, st, fmt.Sprintf("(= (s_len %s) (uf_aead_noncesize_1 %s))", nonce.T, sem), "aead-nonce", "AEAD.Open panics unless len(nonce) == NonceSize()", pos)
		ok := e.sc.freshName("open.ok")
		cseq := e.sc.freshName("open.ct")
		e.sc.define(cseq, "(Array Int Int)", e.seqOfSlice(st, ct.T))
		nseq := e.sc.freshName("open.nonce")
		e.sc.define(nseq, "(Array Int Int)", e.seqOfSlice(st, nonce.T))
		e.sc.define(ok, "Bool", fmt.Sprintf("(and (>= (s_len %s) (uf_aead_overhead_1 %s)) (uf_aead_valid_5 %s %s (s_len %s) %s (s_len %s)))", ct.T, sem, sem, nseq, nonce.T, cseq, ct.T))
		n := e.sc.freshName("open.n")
		e.sc.define(n, "Int", fmt.Sprintf("(ite %s (- (s_len %s) (uf_aead_overhead_1 %s)) (s_len %s))", ok, ct.T, sem, ct.T))
		e.safety(fr, st, overlapOK(dst, ct, n), "aead-overlap", "AEAD.Open panics on inexact overlap of dst and ciphertext", pos)
		pt := app("uf_aead_open_5", sem, nseq, "(s_len "+nonce.T+")", cseq, "(s_len "+ct.T+")")
		junk := e.sc.freshConst("open.junk", "(Array Int Int)")
		e.sc.assume(st.reach, fmt.Sprintf("(forall ((qb Int)) (! (and (<= 0 (select %s qb)) (<= (select %s qb) 255)) :pattern ((select %s qb))))", junk, junk, junk))
		// success: plaintext appended to dst; failure: the output region may have been overwritten (zeroed)
		e.seqLit(st, nonce, 12)
		res := appendBytes(e, st, dst, n, func(k string) string { return ite(ok, sel(pt, k), sel(junk, k)) }, "")
		er := e.fresh(st, "open.err", errT)
		e.sc.assume(st.reach, fmt.Sprintf("(= (= %s nil_iface) %s)", er.T, ok))
		rs := e.sc.freshName("open.res")
		e.sc.define(rs, "Slice", ite(ok, res, "nil_slice"))
		return Val{Typ: cc.Signature().Results(), Tuple: []Val{{T: rs, Typ: cc.Signature().Results().At(0).Type()}, er}}
	}
	bytesEff := func(e *Exec, cc *ssa.CallCommon) []string { return []string{e.elemHeap(byteT), "G_alloc"} }
	modelEffects["(crypto/cipher.AEAD).Seal"] = bytesEff
	modelEffects["(crypto/cipher.AEAD).Open"] = bytesEff

	models["golang.org/x/crypto/salsa20.XORKeyStream"] = func(e *Exec, fr *Frame, st *State, args []Val, cc *ssa.CallCommon, pos token.Pos) Val {
		e.cryptoDecls()
		out, in, nonce, key := args[0], args[1], args[2], args[3]
		e.safety(fr, st, fmt.Sprintf("(>= (s_len %s) (s_len %s))", out.T, in.T), "salsa-len", "salsa20.XORKeyStream panics if len(out) < len(in)", pos)
		e.safety(fr, st, fmt.Sprintf("(or (= (s_len %s) 8) (= (s_len %s) 24))", nonce.T, nonce.T), "salsa-nonce", "salsa20.XORKeyStream panics unless the nonce has 8 or 24 bytes", pos)
		m := e.elemHeap(byteT)
		h := e.hget(st, m)
		kl := e.locOf(key)
		e.seqLit(st, nonce, 8)
		ks := e.sc.freshName("salsa.ks")
		e.sc.define(ks, "(Array Int Int)", app("uf_salsa_ks_3", e.seqOfSlice(st, nonce.T), "(s_len "+nonce.T+")", sel(h, kl.Base)))
		R := e.sc.freshConst("salsa.R", "(Array Int Int)")
		q := e.sc.freshName("q.j")
		old := sel(h, "(s_arr "+out.T+")")
		inArr := sel(h, "(s_arr "+in.T+")")
		e.sc.assume(st.reach, fmt.Sprintf("(forall ((%s Int)) (! (=> (and (<= (s_off %s) %s) (< %s (+ (s_off %s) (s_len %s)))) (= (select %s %s) (uf_bxor_2 (select %s (+ (s_off %s) (- %s (s_off %s)))) (select %s (- %s (s_off %s)))))) :pattern ((select %s %s))))",
			q, out.T, q, q, out.T, in.T, R, q, inArr, in.T, q, out.T, ks, q, out.T, R, q))
		e.sc.assume(st.reach, fmt.Sprintf("(forall ((%s Int)) (! (=> (or (< %s (s_off %s)) (>= %s (+ (s_off %s) (s_len %s)))) (= (select %s %s) (select %s %s))) :pattern ((select %s %s))))", q, q, out.T, q, out.T, in.T, R, q, old, q, R, q))
		e.hset(st, m, sto(h, "(s_arr "+out.T+")", R))
		return Val{T: "0"}
	}
	modelEffects["golang.org/x/crypto/salsa20.XORKeyStream"] = func(e *Exec, cc *ssa.CallCommon) []string { return []string{e.elemHeap(byteT)} }

	// constructors: the AEAD object stands for (algorithm, key bytes)
	mkAEAD := func(e *Exec, st *State, kind int, keySeq, keyLen string, rt types.Type) Val {
		e.cryptoDecls()
		ref := e.alloc(st)
		typ := e.sc.freshConst("aead.typ", "Int")
		e.sc.assume(st.reach, "(not (= "+typ+" 0))")
		sem := app("uf_aead_mk_4", fmt.Sprint(kind), keySeq, keyLen, "0")
		e.sc.assume(st.reach, fmt.Sprintf("(and (= (uf_aead_sem_1 %s) %s) (= (uf_aead_overhead_1 %s) 16) (= (uf_aead_noncesize_1 %s) 12))", ref, sem, sem, sem))
		e.sc.used["assumed: AES-GCM (crypto/cipher.NewGCM) and chacha20poly1305.New yield AEADs with Overhead()=16 and NonceSize()=12 determined by (algorithm, key)"] = true
		return Val{T: fmt.Sprintf("(mk_iface %s %s)", typ, ref), Typ: rt}
	}
	models["crypto/aes.NewCipher"] = func(e *Exec, fr *Frame, st *State, args []Val, cc *ssa.CallCommon, pos token.Pos) Val {
		e.cryptoDecls()
		key := args[0]
		ref := e.alloc(st)
		typ := e.sc.freshConst("block.typ", "Int")
		e.sc.assume(st.reach, "(not (= "+typ+" 0))")
		e.sc.declFun("block_key", []string{"Int"}, "(Array Int Int)")
		e.sc.declFun("block_keylen", []string{"Int"}, "Int")
		ok := fmt.Sprintf("(or (= (s_len %s) 16) (= (s_len %s) 24) (= (s_len %s) 32))", key.T, key.T, key.T)
		e.sc.assume(st.reach, fmt.Sprintf("(and (= (block_key %s) %s) (= (block_keylen %s) (s_len %s)))", ref, e.seqOfSlice(st, key.T), ref, key.T))
		er := e.fresh(st, "aes.err", errT)
		e.sc.assume(st.reach, fmt.Sprintf("(= (= %s nil_iface) %s)", er.T, ok))
		blk := e.sc.freshName("aes.block")
		e.sc.define(blk, "Iface", ite(ok, fmt.Sprintf("(mk_iface %s %s)", typ, ref), "nil_iface"))
		return Val{Typ: cc.Signature().Results(), Tuple: []Val{{T: blk, Typ: cc.Signature().Results().At(0).Type()}, er}}
	}
	models["crypto/cipher.NewGCM"] = func(e *Exec, fr *Frame, st *State, args []Val, cc *ssa.CallCommon, pos token.Pos) Val {
		e.cryptoDecls()
		e.sc.declFun("block_key", []string{"Int"}, "(Array Int Int)")
		e.sc.declFun("block_keylen", []string{"Int"}, "Int")
		b := "(i_val " + args[0].T + ")"
		a := mkAEAD(e, st, 1, app("block_key", b), app("block_keylen", b), cc.Signature().Results().At(0).Type())
		return Val{Typ: cc.Signature().Results(), Tuple: []Val{a, {T: "nil_iface", Typ: errT}}}
	}
	models["golang.org/x/crypto/chacha20poly1305.New"] = func(e *Exec, fr *Frame, st *State, args []Val, cc *ssa.CallCommon, pos token.Pos) Val {
		key := args[0]
		ok := fmt.Sprintf("(= (s_len %s) 32)", key.T)
		a := mkAEAD(e, st, 2, e.seqOfSlice(st, key.T), "(s_len "+key.T+")", cc.Signature().Results().At(0).Type())
		er := e.fresh(st, "chacha.err", errT)
		e.sc.assume(st.reach, fmt.Sprintf("(= (= %s nil_iface) %s)", er.T, ok))
		r := e.sc.freshName("chacha.aead")
		e.sc.define(r, "Iface", ite(ok, a.T, "nil_iface"))
		return Val{Typ: cc.Signature().Results(), Tuple: []Val{{T: r, Typ: a.Typ}, er}}
	}
	for _, k := range []string{"crypto/aes.NewCipher", "crypto/cipher.NewGCM", "golang.org/x/crypto/chacha20poly1305.New"} {
		modelEffects[k] = func(e *Exec, cc *ssa.CallCommon) []string { return []string{"G_alloc"} }
	}
}

// ---------- bytes.Buffer as a ghost FIFO ----------

func registerBufferModels() {
	intT := types.Typ[types.Int]
	errT := types.Universe.Lookup("error").Type()
	byteT := types.Typ[types.Byte]
	eff := func(e *Exec, cc *ssa.CallCommon) []string { return append(e.bufferMaps(), e.elemHeap(byteT)) }
	models["(*bytes.Buffer).Len"] = func(e *Exec, fr *Frame, st *State, args []Val, cc *ssa.CallCommon, pos token.Pos) Val {
		e.bufferMaps()
		b := args[0].T
		return Val{T: fmt.Sprintf("(- %s %s)", sel(e.hget(st, "GB_bufwr"), b), sel(e.hget(st, "GB_bufrd"), b)), Typ: intT}
	}
	modelEffects["(*bytes.Buffer).Len"] = func(e *Exec, cc *ssa.CallCommon) []string { return nil }
	models["(*bytes.Buffer).Write"] = func(e *Exec, fr *Frame, st *State, args []Val, cc *ssa.CallCommon, pos token.Pos) Val {
		e.bufferMaps()
		b, p := args[0].T, args[1]
		h := e.hget(st, e.elemHeap(byteT))
		data := e.hget(st, "GB_bufdata")
		wr := sel(e.hget(st, "GB_bufwr"), b)
		R := e.sc.freshConst("buf.R", "(Array Int Int)")
		q := e.sc.freshName("q.j")
		e.sc.assume(st.reach, fmt.Sprintf("(forall ((%s Int)) (! (=> (and (<= %s %s) (< %s (+ %s (s_len %s)))) (= (select %s %s) (select (select %s (s_arr %s)) (+ (s_off %s) (- %s %s))))) :pattern ((select %s %s))))", q, wr, q, q, wr, p.T, R, q, h, p.T, p.T, q, wr, R, q))
		e.sc.assume(st.reach, fmt.Sprintf("(forall ((%s Int)) (! (=> (< %s %s) (= (select %s %s) (select (select %s %s) %s))) :pattern ((select %s %s))))", q, q, wr, R, q, data, b, q, R, q))
		e.hset(st, "GB_bufdata", sto(data, b, R))
		e.hset(st, "GB_bufwr", sto(e.hget(st, "GB_bufwr"), b, fmt.Sprintf("(+ %s (s_len %s))", wr, p.T)))
		return Val{Typ: cc.Signature().Results(), Tuple: []Val{{T: "(s_len " + p.T + ")", Typ: intT}, {T: "nil_iface", Typ: errT}}}
	}
	modelEffects["(*bytes.Buffer).Write"] = eff
	models["(*bytes.Buffer).Read"] = func(e *Exec, fr *Frame, st *State, args []Val, cc *ssa.CallCommon, pos token.Pos) Val {
		e.bufferMaps()
		b, p := args[0].T, args[1]
		m := e.elemHeap(byteT)
		h := e.hget(st, m)
		data := sel(e.hget(st, "GB_bufdata"), b)
		rd := sel(e.hget(st, "GB_bufrd"), b)
		wr := sel(e.hget(st, "GB_bufwr"), b)
		n := e.sc.freshName("buf.n")
		e.sc.define(n, "Int", fmt.Sprintf("(ite (<= (s_len %s) (- %s %s)) (s_len %s) (- %s %s))", p.T, wr, rd, p.T, wr, rd))
		R := e.sc.freshConst("buf.R", "(Array Int Int)")
		q := e.sc.freshName("q.j")
		old := sel(h, "(s_arr "+p.T+")")
		e.sc.assume(st.reach, fmt.Sprintf("(forall ((%s Int)) (! (=> (and (<= (s_off %s) %s) (< %s (+ (s_off %s) %s))) (= (select %s %s) (select %s (+ %s (- %s (s_off %s)))))) :pattern ((select %s %s))))", q, p.T, q, q, p.T, n, R, q, data, rd, q, p.T, R, q))
		e.sc.assume(st.reach, fmt.Sprintf("(forall ((%s Int)) (! (=> (or (< %s (s_off %s)) (>= %s (+ (s_off %s) %s))) (= (select %s %s) (select %s %s))) :pattern ((select %s %s))))", q, q, p.T, q, p.T, n, R, q, old, q, R, q))
		e.hset(st, m, sto(h, "(s_arr "+p.T+")", R))
		e.hset(st, "GB_bufrd", sto(e.hget(st, "GB_bufrd"), b, fmt.Sprintf("(+ %s %s)", rd, n)))
		er := e.sc.freshName("buf.err")
		// empty buffer and non-empty destination: io.EOF
		e.sc.define(er, "Iface", ite(fmt.Sprintf("(and (= %s %s) (> (s_len %s) 0))", rd, wr, p.T), e.ioEOF(), "nil_iface"))
		return Val{Typ: cc.Signature().Results(), Tuple: []Val{{T: n, Typ: intT}, {T: er, Typ: errT}}}
	}
	modelEffects["(*bytes.Buffer).Read"] = eff
}

func (e *Exec) ioEOF() string {
	n := e.sc.declGlobalConst("gerr_io.EOF", "Iface")
	id := e.sc.typeTag(types.NewPointer(types.NewTuple(types.NewVar(0, nil, n, types.Typ[types.Int]))))
	e.sc.axiom("gerr:"+n, fmt.Sprintf("(and (= (i_val %s) (- 0 %s 1000000)) (not (= (i_typ %s) 0)))", n, id, n))
	return n
}

func (e *Exec) bufferMaps() []string {
	return []string{e.heapMap("GB_bufdata", "(Array Int (Array Int Int))"), e.heapMap("GB_bufrd", "(Array Int Int)"), e.heapMap("GB_bufwr", "(Array Int Int)")}
}

func (e *Exec) havocBuffer(st *State, buf string, isFresh string) {
	for _, m := range e.bufferMaps() {
		h := e.hget(st, m)
		srt := e.heapSort[m]
		inner := srt[len("(Array Int ") : len(srt)-1]
		n := e.sc.freshConst("guarded.buf", inner)
		e.hset(st, m, ite(isFresh, h, sto(h, buf, n)))
	}
	rd, wr := sel(e.hget(st, "GB_bufrd"), buf), sel(e.hget(st, "GB_bufwr"), buf)
	e.sc.assume(st.reach, "(and (<= 0 "+rd+") (<= "+rd+" "+wr+"))")
}

// seqLit emits the derived fact that a short byte slice of known length n, read as a sequence, is the
// explicit n-element array literal of its bytes (saves the solver an extensionality argument).
func (e *Exec) seqLit(st *State, s Val, n int) {
	h := e.hget(st, e.elemHeap(types.Typ[types.Byte]))
	arr := sel(h, "(s_arr "+s.T+")")
	lit := "((as const (Array Int Int)) 0)"
	for i := 0; i < n; i++ {
		lit = sto(lit, fmt.Sprint(i), sel(arr, fmt.Sprintf("(+ (s_off %s) %d)", s.T, i)))
	}
	e.sc.assume(st.reach, fmt.Sprintf("(=> (= (s_len %s) %d) (= %s %s))", s.T, n, e.seqOfSlice(st, s.T), lit))
}
