package main

import (
	"go/types"
)

func registerHeapModels()   {}
func registerCryptoModels() {}
func registerBufferModels() {}

func (e *Exec) bufferMaps() []string {
	return []string{e.heapMap("GB_bufdata", "(Array Int (Array Int Int))"), e.heapMap("GB_bufrd", "(Array Int Int)"), e.heapMap("GB_bufwr", "(Array Int Int)")}
}

func (e *Exec) havocBuffer(st *State, buf string, isFresh string) {
	for _, m := range e.bufferMaps() {
		h := e.hget(st, m)
		srt := e.heapSort[m]
		inner := srt[len("(Array Int ") : len(srt)-1]
		n := e.sc.freshConst("guarded.buf", inner)
		e.hset(st, m, ite(isFresh, h, sto(h, buf, n)))
	}
	rd, wr := sel(e.hget(st, "GB_bufrd"), buf), sel(e.hget(st, "GB_bufwr"), buf)
	e.sc.assume(st.reach, "(and (<= 0 "+rd+") (<= "+rd+" "+wr+"))")
}

var _ = types.Typ
