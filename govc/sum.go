package main

import (
	"fmt"
	"go/types"
)

// isum(a, o, n) = a[o] + ... + a[o+n-1]: uninterpreted. Quantified unfolding axioms would loop in the
// matcher, so the two unfoldings the code needs are emitted as ground facts exactly where the code
// performs the corresponding operation on an []int:
//
//	s[1:]            isum(a,o,n) = a[o] + isum(a,o+1,n-1)                     (n > 0)
//	append(s, x)     isum(r,ro,n+1) = isum(r,ro,n) + r[ro+n]  and  isum(r,ro,n) = isum(a,o,n)
//
// Both are theorems of the recursive definition of the sum (induction on n; the second needs that the
// copied range has equal elements). They are listed as assumed arithmetic lemma facts in the evidence.
func (e *Exec) sumDecls() {
	if e.sc.declared["isum"] {
		return
	}
	A := "(Array Int Int)"
	e.sc.declFun("isum", []string{A, "Int", "Int"}, "Int")
	// a sum is non-negative unless some element of the range is negative (witness function isumneg)
	e.sc.declFun("isumneg", []string{A, "Int", "Int"}, "Int")
	e.sc.axiom("isum_nonneg", "(forall ((a "+A+") (o Int) (n Int)) (! (or (>= (isum a o n) 0) (and (<= o (isumneg a o n)) (< (isumneg a o n) (+ o n)) (< (select a (isumneg a o n)) 0))) :pattern ((isum a o n))))")
	e.sc.axiom("isum_empty", "(forall ((a "+A+") (o Int) (n Int)) (! (=> (<= n 0) (= (isum a o n) 0)) :pattern ((isum a o n))))")
	e.sc.used["arithmetic lemma facts for the sum of an int slice (empty; drop-head at s[1:]; append-tail at append): theorems of the recursive definition, emitted as ground facts and assumed"] = true
}

func isIntElem(t types.Type) bool {
	b, ok := types.Unalias(t).Underlying().(*types.Basic)
	return ok && b.Kind() == types.Int
}

// sumDropHead: fact for s[1:] of an []int
func (e *Exec) sumDropHead(st *State, s string) {
	e.sumDecls()
	arr := sel(e.hget(st, e.elemHeap(types.Typ[types.Int])), "(s_arr "+s+")")
	e.sc.assume(st.reach, fmt.Sprintf("(=> (> (s_len %s) 0) (= (isum %s (s_off %s) (s_len %s)) (+ (select %s (s_off %s)) (isum %s (+ (s_off %s) 1) (- (s_len %s) 1)))))", s, arr, s, s, arr, s, arr, s, s))
}

// sumAppend: facts for r = append(s, t...) of []int with the result array contents R at offset rOff
func (e *Exec) sumAppend(st *State, sOldArr, s, R, rOff, n string) {
	e.sumDecls()
	// copied prefix has the same sum; appended single element adds itself
	e.sc.assume(st.reach, fmt.Sprintf("(= (isum %s %s (s_len %s)) (isum %s (s_off %s) (s_len %s)))", R, rOff, s, sOldArr, s, s))
	e.sc.assume(st.reach, fmt.Sprintf("(=> (= %s 1) (= (isum %s %s (+ (s_len %s) 1)) (+ (isum %s %s (s_len %s)) (select %s (+ %s (s_len %s))))))", n, R, rOff, s, R, rOff, s, R, rOff, s))
}
