package main

import (
	"go/types"

	"golang.org/x/tools/go/ssa"
)

// callPreserves: the field maps a "modifies *" callee declares as preserved (nil if it declares none
// or has no contract).
func (e *Exec) callPreserves(cc *ssa.CallCommon) []string {
	var fc *FuncContract
	if cc.IsInvoke() {
		rt := types.Unalias(cc.Value.Type())
		if nt, ok := rt.(*types.Named); ok {
			fc = e.w.Contract[fullKeyOfMethod(nt, cc.Method)]
		}
		if fc == nil {
			if r := cc.Method.Type().(*types.Signature).Recv(); r != nil {
				fc = e.w.Contract[fullKeyOfMethod(r.Type(), cc.Method)]
			}
		}
	} else {
		var fn *ssa.Function
		switch c := cc.Value.(type) {
		case *ssa.Function:
			fn = c
		case *ssa.MakeClosure:
			fn, _ = c.Fn.(*ssa.Function)
		}
		if fn != nil {
			fc = e.w.Contract[fullKeyOfFunc(fn)]
		}
	}
	if fc == nil || !fc.ModAll {
		return nil
	}
	var out []string
	for _, pc := range fc.Preserves {
		out = append(out, e.rawModMaps(pc)...)
	}
	return out
}
