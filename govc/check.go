package main

import (
	"context"
	"encoding/json"
	"flag"
	"fmt"
	"os"
	"os/exec"
	"path/filepath"
	"sort"
	"strconv"
	"strings"
	"sync"
	"time"
)

type PropGroup struct {
	Units       []string `json:"units"`
	Assumptions []string `json:"assumptions"`
	Note        string   `json:"note"`
	Bounded     []string `json:"bounded,omitempty"`
}

type Groups struct {
	Properties map[string]*PropGroup `json:"properties"`
	Global     []string              `json:"global_assumptions"`
	// obligation name -> the one property it is checked under (a unit shared by several properties
	// carries clauses of each; the other properties' checks leave the obligation to its owner)
	Owner map[string]string `json:"obligation_owner"`
}

type knownFinding struct {
	Prop, Obligation, Text string
	Replay, Pkg, Test      string
}

// replayFinding runs the finding's demonstration against the real code (go test -overlay).
// Returns true if the defect still reproduces.
func replayFinding(kf *knownFinding) (bool, string) {
	if kf.Replay == "" {
		return true, "(no replay registered)"
	}
	cmd := exec.Command(filepath.Join(verifDir, "tools", "replay_finding.sh"), filepath.Join(verifDir, kf.Replay), kf.Pkg, kf.Test)
	out, err := cmd.CombinedOutput()
	return err == nil, string(out)
}

func readKnownFindings(path string) []knownFinding {
	data, err := os.ReadFile(path)
	if err != nil {
		return nil
	}
	var out []knownFinding
	for _, ln := range strings.Split(string(data), "\n") {
		ln = strings.TrimSpace(ln)
		if !strings.HasPrefix(ln, "finding:") {
			continue
		}
		rest := strings.TrimSpace(strings.TrimPrefix(ln, "finding:"))
		kf := knownFinding{}
		for _, f := range strings.Fields(rest) {
			if strings.HasPrefix(f, "property=") {
				kf.Prop = strings.TrimPrefix(f, "property=")
			} else if strings.HasPrefix(f, "obligation=") {
				kf.Obligation = strings.TrimPrefix(f, "obligation=")
			} else if strings.HasPrefix(f, "replay=") {
				kf.Replay = strings.TrimPrefix(f, "replay=")
			} else if strings.HasPrefix(f, "pkg=") {
				kf.Pkg = strings.TrimPrefix(f, "pkg=")
			} else if strings.HasPrefix(f, "test=") {
				kf.Test = strings.TrimPrefix(f, "test=")
			}
		}
		if i := strings.Index(rest, " -- "); i >= 0 {
			kf.Text = strings.TrimSpace(rest[i+4:])
		}
		if kf.Prop != "" && kf.Obligation != "" {
			out = append(out, kf)
		}
	}
	return out
}

func cmdCheck(args []string) int {
	fs := flag.NewFlagSet("check", flag.ExitOnError)
	prop := fs.String("prop", "", "property id")
	tier := fs.String("tier", "quick", "quick|thorough")
	fs.Parse(args)
	t0 := time.Now()
	seed := 0
	if s := os.Getenv("VERIF_SEED"); s != "" {
		seed, _ = strconv.Atoi(s)
	}
	var groups Groups
	data, err := os.ReadFile(filepath.Join(verifDir, "contracts", "groups.json"))
	if err != nil {
		fmt.Println("ENGINE-ERROR:", err)
		return 2
	}
	if err := json.Unmarshal(data, &groups); err != nil {
		fmt.Println("ENGINE-ERROR: groups.json:", err)
		return 2
	}
	g := groups.Properties[*prop]
	if g == nil {
		fmt.Println("ENGINE-ERROR: unknown property", *prop)
		return 2
	}
	w, err := loadWorld(repoDir, []string{"./internal/...", "./cmd/ck-client"})
	if err != nil {
		fmt.Println("ENGINE-ERROR:", err)
		return 2
	}
	var units []*Unit
	for _, a := range g.Units {
		pk, key, _ := strings.Cut(a, ":")
		u, err := w.findUnit(pk, key)
		if err != nil {
			fmt.Println("ENGINE-ERROR:", err)
			return 2
		}
		units = append(units, u)
	}
	runDir := filepath.Join(verifDir, "out", fmt.Sprintf("%s-%s-%d", *prop, *tier, os.Getpid()))
	// disk hygiene: the SMT files of earlier runs of this check (tens of MB each) are dropped once they are
	// half an hour old; the files of the current run stay until then (replay files point at them)
	if old, err := filepath.Glob(filepath.Join(verifDir, "out", fmt.Sprintf("%s-%s-*", *prop, *tier))); err == nil {
		for _, d := range old {
			if fi, err := os.Stat(d); err == nil && time.Since(fi.ModTime()) > 30*time.Minute {
				os.RemoveAll(d)
			}
		}
	}
	os.MkdirAll(runDir, 0o755)
	quickMs, fbMs := 10000, 15000
	if *tier == "thorough" {
		// thorough: long budgets, vacuity (cover) queries get 20 s instead of 1.5 s, and every proof
		// is re-done stand-alone by a second solver family (crossCheck)
		quickMs, fbMs = 30000, 120000
		coverMs = 20000
	}
	// an obligation recorded as a known finding is expected to stay unproved: no second chance for it
	for _, kf := range readKnownFindings(filepath.Join(verifDir, "known_findings.txt")) {
		if kf.Prop == *prop {
			noSecondChance[kf.Obligation] = true
		}
	}
	runs := runUnits(w, units, runDir, quickMs, fbMs)
	if *tier == "thorough" {
		// thorough: additionally re-prove every obligation stand-alone on all three solvers and record agreement
		crossCheck(runs, runDir, fbMs)
	}
	known := readKnownFindings(filepath.Join(verifDir, "known_findings.txt"))
	isKnown := func(name string) *knownFinding {
		for i := range known {
			if known[i].Prop == *prop && known[i].Obligation == name {
				return &known[i]
			}
		}
		return nil
	}
	total, discharged := 0, 0
	bySolver := map[string]int{}
	solverTime := 0.0
	var engineErrs []string
	var violations []ObResult
	var knownHit []string
	var funcs []map[string]interface{}
	var samples []map[string]interface{}
	trusted := map[string]bool{}
	uncontracted := map[string]bool{}
	covers := map[string]int{}
	var slowest ObResult
	for _, r := range runs {
		engineErrs = append(engineErrs, r.Exec.errs...)
		n, ok := 0, 0
		unitFailed := false
		for _, o := range r.Results {
			if !o.IsCover && o.Status != "proved" {
				unitFailed = true
			}
		}
		for _, o := range r.Results {
			solverTime += o.TimeS
			if o.IsCover {
				covers[o.Status]++
				// (a failed obligation is assumed afterwards, which can make later points unreachable: not vacuity)
				if o.Status == "vacuous" && !unitFailed {
					engineErrs = append(engineErrs, fmt.Sprintf("%s: vacuous (%s is unsatisfiable)", o.Name, o.Msg))
				}
				continue
			}
			if o.TimeS > slowest.TimeS {
				slowest = o
			}
			if owner, has := groups.Owner[o.Name]; has && owner != *prop {
				trusted["obligation "+o.Name+" is decided under property "+owner+", not here"] = true
				continue
			}
			if kf := isKnown(o.Name); kf != nil {
				if o.Status != "proved" {
					if ok, out := replayFinding(kf); !ok {
						engineErrs = append(engineErrs, fmt.Sprintf("stale known finding: %s no longer reproduces on the real code (%s): %s", o.Name, kf.Replay, truncate(out, 300)))
					}
					knownHit = append(knownHit, fmt.Sprintf("KNOWN-FINDING: property=%s %s %s (replayed on the real code: %s)", *prop, o.Name, kf.Text, kf.Replay))
				} else {
					engineErrs = append(engineErrs, fmt.Sprintf("stale known finding: %s is listed in known_findings.txt but now proves", o.Name))
				}
				continue
			}
			n++
			total++
			if os.Getenv("GOVC_SLOW") != "" && !strings.Contains(o.Solver, "(incremental)") {
				fmt.Printf("SLOW %s %s %.1fs %s | %s\n", o.Name, o.Status, o.TimeS, o.Solver, strings.ReplaceAll(o.Output, "\n", " "))
			}
			if o.Status == "proved" {
				ok++
				discharged++
				bySolver[o.Solver]++
				if len(samples) < 6 {
					samples = append(samples, map[string]interface{}{"obligation": o.Name, "class": o.Class, "what": o.Msg, "at": o.Pos, "solver": o.Solver, "smt_file": o.File})
				}
			} else {
				violations = append(violations, o)
			}
		}
		if n == 0 && len(r.Exec.errs) == 0 && r.Unit.Kind != "refine" {
			// (a refinement unit may have nothing to show: an interface contract without clauses and an
			// implementation that changes nothing)
			engineErrs = append(engineErrs, fmt.Sprintf("%s generated no obligations", r.Unit.Name))
		}
		funcs = append(funcs, map[string]interface{}{"unit": r.Unit.Name, "kind": r.Unit.Kind, "obligations": n, "discharged": ok, "vc_gen_s": round2(r.GenS), "solve_s": round2(r.SolveS)})
		for k := range r.Exec.sc.used {
			trusted[k] = true
		}
		for k := range r.Exec.sc.uncontracted {
			uncontracted[k] = true
		}
	}
	if trusted[be64LemmaNote] {
		f := filepath.Join(runDir, "lemma_be64.smt2")
		os.WriteFile(f, []byte(be64LemmaSMT), 0o644)
		out, _ := runSolver(context.Background(), solvers[2], f, 60000)
		if firstVerdict(out) != "unsat" {
			engineErrs = append(engineErrs, "arithmetic lemma be64_decomp was not proved by cvc5: "+firstVerdict(out))
		} else {
			total++
			discharged++
			bySolver["cvc5"]++
		}
	}
	for _, d := range crossStats.Disagree {
		engineErrs = append(engineErrs, "solver disagreement: "+d+" is proved by one solver and answered sat by another")
	}
	if *tier == "thorough" {
		trusted[fmt.Sprintf("thorough tier: %d proofs re-done stand-alone; %d confirmed by both z3 5.1 and cvc5, %d by exactly one of them, the rest only by the original run; covers: %v", crossStats.Checked, crossStats.Confirmed, crossStats.OnlyOne, covers)] = true
	}
	for _, l := range knownHit {
		fmt.Println(l)
	}
	exit := 0
	var replayFiles []string
	for i, v := range violations {
		rf := filepath.Join(runDir, fmt.Sprintf("replay-%s-%d.txt", *prop, i+1))
		var b strings.Builder
		fmt.Fprintf(&b, "property: %s\nfailed obligation: %s\nclass: %s\nwhat: %s\nat: %s\nstatus: %s (refuted = solver found a counterexample to the verification condition; undecided = no solver could prove it within the budget)\nsmt file: %s\n\nverifier output:\n%s\n", *prop, v.Name, v.Class, v.Msg, v.Pos, v.Status, v.File, v.Output)
		fmt.Fprintf(&b, "\nThis obligation is discharged on the reference tree. No input was replayed against the real code by this check: no-failing-input-found.\n")
		os.WriteFile(rf, []byte(b.String()), 0o644)
		replayFiles = append(replayFiles, rf)
		fmt.Printf("VIOLATION property=%s replay=%s obligation=%s (%s: %s at %s) no-failing-input-found\n", *prop, rf, v.Name, v.Status, v.Msg, v.Pos)
		exit = 1
	}
	if len(engineErrs) > 0 {
		for _, m := range engineErrs {
			fmt.Println("ENGINE-ERROR:", m)
		}
		if exit == 0 {
			exit = 2
		}
	}
	// evidence
	var tb []string
	for k := range trusted {
		tb = append(tb, k)
	}
	sort.Strings(tb)
	tb = append([]string{"govc VC generator (this repository: /verif/govc) over golang.org/x/tools/go/ssa v0.29.0 (naive form)", "SMT solvers: z3 5.1.0 (z3-new), z3 4.8.12, cvc5 1.0"}, tb...)
	var unc []string
	for k := range uncontracted {
		unc = append(unc, k)
	}
	sort.Strings(unc)
	assumptions := append([]string{}, groups.Global...)
	assumptions = append(assumptions, g.Assumptions...)
	ev := map[string]interface{}{
		"property_id": *prop,
		"tier":        *tier,
		"seed":        seed,
		"level":       "proof",
		"coverage": map[string]interface{}{
			"obligations":              total,
			"discharged":               discharged,
			"checker_cmd":              fmt.Sprintf("/verif/bin/govc check -prop %s -tier %s", *prop, *tier),
			"trusted_base":             tb,
			"functions_under_contract": funcs,
			"by_solver":                bySolver,
			"solver_time_s":            round2(solverTime),
			"slowest":                  map[string]interface{}{"obligation": slowest.Name, "time_s": round2(slowest.TimeS)},
			"vacuity_covers":           covers,
			"uncontracted_calls":       unc,
			"known_findings":           knownHit,
			"samples":                  samples,
			"bounded":                  g.Bounded,
			"explanation":              g.Note,
			"smt_dir":                  runDir,
		},
		"assumptions": assumptions,
		"wall_s":      round2(time.Since(t0).Seconds()),
		"violations":  len(violations),
	}
	// (the must-fail self-test runs the checks on deliberately broken trees: it redirects the evidence
	// so that /verif/evidence always describes a run on the tree as it is)
	evDir := filepath.Join(verifDir, "evidence")
	if d := os.Getenv("VERIF_EVIDENCE_DIR"); d != "" {
		evDir = d
	}
	os.MkdirAll(evDir, 0o755)
	js, _ := json.MarshalIndent(ev, "", " ")
	os.WriteFile(filepath.Join(evDir, *prop+".json"), js, 0o644)
	fmt.Printf("%s %s: %d/%d obligations discharged over %d units, %d known findings, %.1fs\n", *prop, *tier, discharged, total, len(units), len(knownHit), time.Since(t0).Seconds())
	return exit
}

func round2(x float64) float64 { return float64(int(x*100+0.5)) / 100 }

// crossStats: outcome of the thorough tier's independent re-proof.
var crossStats struct {
	sync.Mutex
	Checked, Confirmed, OnlyOne int
	Disagree                   []string
}

// crossCheck (thorough tier) re-runs every proved obligation stand-alone on the two solver families
// (z3 5.1 and cvc5; z3 4.8 as tie-breaker is not needed) and records how many proofs are confirmed
// by a second, independent solver. A `sat` answer to an obligation another solver proved is a
// disagreement and is reported as an engine error.
func crossCheck(runs []*UnitRun, dir string, ms int) {
	sem := make(chan struct{}, 16)
	var wg sync.WaitGroup
	per := 5000
	for _, r := range runs {
		sc := r.Exec.sc
		udir := filepath.Join(dir, sanitize(sc.Unit))
		// index of script items by obligation name
		idx := map[string]int{}
		for i, it := range sc.Items {
			if it.Kind == ItOblig {
				idx[it.Name] = i
			}
		}
		for k := range r.Results {
			o := &r.Results[k]
			if o.IsCover || o.Status != "proved" {
				continue
			}
			i, ok := idx[o.Name]
			if !ok {
				continue
			}
			wg.Add(1)
			go func(o *ObResult, i int) {
				defer wg.Done()
				file := filepath.Join(udir, fmt.Sprintf("x%04d.smt2", i))
				os.WriteFile(file, []byte(singleScript(sc, i, false)), 0o644)
				unsat, sat := 0, 0
				for _, sp := range []solverSpec{solvers[0], solvers[2]} {
					sem <- struct{}{}
					out, _ := runSolver(context.Background(), sp, file, per)
					<-sem
					switch firstVerdict(out) {
					case "unsat":
						unsat++
					case "sat":
						sat++
					}
				}
				os.Remove(file)
				crossStats.Lock()
				crossStats.Checked++
				if unsat == 2 {
					crossStats.Confirmed++
				} else if unsat == 1 {
					crossStats.OnlyOne++
				}
				if sat > 0 {
					crossStats.Disagree = append(crossStats.Disagree, o.Name)
				}
				crossStats.Unlock()
			}(o, i)
		}
	}
	wg.Wait()
}
