package main

// Assumed model of container/heap for priority queues of frames ordered by an unsigned key that
// never holds two elements with the same key (multiplex.sorterHeap, ordered by Frame.Seq).
//
// The queue living in the field x.sh of an object x is abstracted by ghost state keyed by x:
//
//	HP_has[x][s]  : Bool   an element with key s is in the queue
//	HP_ref[x][s]  : Int    that element (pointer)
//	HP_n[x]       : Int    number of elements
//	HP_min[x]     : Int    the smallest key present (meaningful if HP_n[x] > 0)
//
// heap.Push(&x.sh, p): requires no element with p's key yet; afterwards p is in, the count is one
// higher, the slice x.sh is SOME slice of that length whose first element is the one with the
// smallest key. heap.Pop(&x.sh): requires a non-empty queue; returns the element with the smallest
// key and removes it. Nothing else is known about the slice (that is all the code may rely on).
// container/heap itself (sift up/down over Len/Less/Swap/Push/Pop of the element type) is not
// verified; the five methods of sorterHeap are what it is given.

import (
	"fmt"
	"go/token"
	"go/types"

	"golang.org/x/tools/go/ssa"
)

func (e *Exec) heapGhost() (has, ref, n, min string) {
	has = e.heapMap("HP_has", "(Array Int (Array Int Bool))")
	ref = e.heapMap("HP_ref", "(Array Int (Array Int Int))")
	n = e.heapMap("HP_n", "(Array Int Int)")
	min = e.heapMap("HP_min", "(Array Int Int)")
	return
}

var heapGhostNames = []string{"HP_has", "HP_ref", "HP_n", "HP_min"}

// heapKeyField: the struct type of the queue elements and the index of the ordering key, for a
// supported queue type (named slice of pointers to a struct with a field "Seq").
func heapKeyField(t types.Type) (types.Type, int, bool) {
	sl, ok := types.Unalias(t).Underlying().(*types.Slice)
	if !ok {
		return nil, 0, false
	}
	pt, ok := types.Unalias(sl.Elem()).Underlying().(*types.Pointer)
	if !ok {
		return nil, 0, false
	}
	st, ok := types.Unalias(pt.Elem()).Underlying().(*types.Struct)
	if !ok {
		return nil, 0, false
	}
	for i := 0; i < st.NumFields(); i++ {
		if st.Field(i).Name() == "Seq" {
			return pt.Elem(), i, true
		}
	}
	return nil, 0, false
}

// heapLink: the slice held in the queue field agrees with the ghost state (length, first element).
func (e *Exec) heapLink(st *State, owner, slice string, elemPtr types.Type) string {
	has, ref, n, min := e.heapGhost()
	cnt := sel(e.hget(st, n), owner)
	mn := sel(e.hget(st, min), owner)
	hs := sel(e.hget(st, has), owner)
	rf := sel(e.hget(st, ref), owner)
	eh := e.hget(st, e.elemHeap(elemPtr))
	first := e.at(elemPtr, sel(eh, "(s_arr "+slice+")"), "(s_off "+slice+")", "0")
	q := e.sc.freshName("q.s")
	// (keys are unsigned 64-bit values: the quantifiers range over those, like the ones in contracts)
	inRange := fmt.Sprintf("(and (<= 0 %s) (<= %s 18446744073709551615))", q, q)
	return and(
		eq("(s_len "+slice+")", cnt), "(>= "+cnt+" 0)", "(<= 0 "+mn+")", "(<= "+mn+" 18446744073709551615)",
		implies("(> "+cnt+" 0)", and(sel(hs, mn), eq(first, sel(rf, mn)),
			fmt.Sprintf("(forall ((%s Int)) (! (=> (and %s (select %s %s)) (>= %s %s)) :pattern ((select %s %s))))", q, inRange, hs, q, q, mn, hs, q))),
		implies(eq(cnt, "0"), fmt.Sprintf("(forall ((%s Int)) (! (=> %s (not (select %s %s))) :pattern ((select %s %s))))", q, inRange, hs, q, hs, q)),
	)
}

func registerHeapModels() {
	ownerOf := func(e *Exec, h Val) (string, *Loc, bool) {
		if h.Loc != nil && h.Loc.Kind == LField {
			return h.Loc.Base, h.Loc, true
		}
		return "", nil, false
	}
	models["container/heap.Push"] = func(e *Exec, fr *Frame, st *State, args []Val, cc *ssa.CallCommon, pos token.Pos) Val {
		has, ref, n, _ := e.heapGhost()
		// args[0]: heap.Interface made from *T (pointer to the queue field); args[1]: any made from *Elem
		hv := e.ifaceSource(fr, st, cc.Args[0])
		owner, loc, ok := ownerOf(e, hv)
		elemStruct, keyIdx, ok2 := heapKeyField(loc.typOrNil())
		if !ok || !ok2 {
			e.sc.uncontracted[fmt.Sprintf("container/heap.Push on an unsupported queue at %s (everything havocked)", e.pos(pos))] = true
			e.havocAll(st)
			return Val{T: "0"}
		}
		e.sc.used["model:container/heap (priority queue of distinct keys; container/heap itself is not verified)"] = true
		x := e.ifaceSource(fr, st, cc.Args[1])
		key := sel(e.hget(st, e.fieldMap(elemStruct, keyIdx)), x.T)
		hs := sel(e.hget(st, has), owner)
		top := fr
		for top.outer != nil {
			top = top.outer
		}
		if top.fc != nil && top.fc.Flags["distinctkeys"] != "" {
			// hypothesis stated by the contract: every key is offered to the queue at most once
			e.sc.used["every key is pushed at most once while it is in the queue (flag distinctkeys of "+e.unit+": each frame is delivered exactly once)"] = true
		} else {
			e.sc.oblig(st.reach, not(sel(hs, key)), e.obName("heap-distinct"), "safety", "heap.Push: no element with the same key is in the queue already (the queue is modelled as a set of keys)", e.pos(pos))
		}
		e.sc.assume(st.reach, not(sel(hs, key)))
		e.hset(st, has, sto(e.hget(st, has), owner, sto(hs, key, "true")))
		e.hset(st, ref, sto(e.hget(st, ref), owner, sto(sel(e.hget(st, ref), owner), key, x.T)))
		e.hset(st, n, sto(e.hget(st, n), owner, "(+ "+sel(e.hget(st, n), owner)+" 1)"))
		e.heapRelink(st, owner, loc)
		return Val{T: "0"}
	}
	models["container/heap.Pop"] = func(e *Exec, fr *Frame, st *State, args []Val, cc *ssa.CallCommon, pos token.Pos) Val {
		has, ref, n, min := e.heapGhost()
		hv := e.ifaceSource(fr, st, cc.Args[0])
		owner, loc, ok := ownerOf(e, hv)
		elemStruct, _, ok2 := heapKeyField(loc.typOrNil())
		anyT := cc.Signature().Results().At(0).Type()
		if !ok || !ok2 {
			e.sc.uncontracted[fmt.Sprintf("container/heap.Pop on an unsupported queue at %s (everything havocked)", e.pos(pos))] = true
			e.havocAll(st)
			return e.fresh(st, "heappop", anyT)
		}
		e.sc.used["model:container/heap (priority queue of distinct keys; container/heap itself is not verified)"] = true
		cnt := sel(e.hget(st, n), owner)
		e.safety(fr, st, "(> "+cnt+" 0)", "heap-pop-empty", "heap.Pop on an empty queue", pos)
		mn := sel(e.hget(st, min), owner)
		popped := sel(sel(e.hget(st, ref), owner), mn)
		pn := e.sc.freshName("heap.popped")
		e.sc.define(pn, "Int", popped)
		e.hset(st, has, sto(e.hget(st, has), owner, sto(sel(e.hget(st, has), owner), mn, "false")))
		e.hset(st, n, sto(e.hget(st, n), owner, "(- "+cnt+" 1)"))
		e.heapRelink(st, owner, loc)
		ptrT := types.NewPointer(elemStruct)
		return Val{T: fmt.Sprintf("(mk_iface %s %s)", e.sc.typeTag(ptrT), pn), Typ: anyT}
	}
	eff := func(e *Exec, cc *ssa.CallCommon) []string {
		e.heapGhost()
		out := append([]string{"G_alloc"}, heapGhostNames...)
		// the queue field and the elements of its slice
		if mi, ok := cc.Args[0].(*ssa.MakeInterface); ok {
			if fa, ok := mi.X.(*ssa.FieldAddr); ok {
				st := fa.X.Type().Underlying().(*types.Pointer).Elem()
				out = append(out, e.fieldMap(st, fa.Field))
				if sl, ok := st.Underlying().(*types.Struct).Field(fa.Field).Type().Underlying().(*types.Slice); ok {
					out = append(out, e.elemHeap(sl.Elem()))
				}
			}
		}
		return out
	}
	modelEffects["container/heap.Push"] = eff
	modelEffects["container/heap.Pop"] = eff
}

func (l *Loc) typOrNil() types.Type {
	if l == nil {
		return nil
	}
	return l.Typ
}

// ifaceSource: the value an interface-typed SSA operand was made from (MakeInterface X).
func (e *Exec) ifaceSource(fr *Frame, st *State, v ssa.Value) Val {
	if mi, ok := v.(*ssa.MakeInterface); ok {
		return e.val(fr, st, mi.X)
	}
	return e.val(fr, st, v)
}

// heapRelink: after a queue operation the field holds some slice that agrees with the ghost state;
// the smallest key is re-characterised.
func (e *Exec) heapRelink(st *State, owner string, loc *Loc) {
	_, _, _, min := e.heapGhost()
	sl := loc.Typ.Underlying().(*types.Slice)
	nm := e.sc.freshConst("heap.min", "Int")
	e.hset(st, min, sto(e.hget(st, min), owner, nm))
	// the queue's slice is modelled as living in an array of its own with unknown contents (its
	// identity and capacity are not observable through what the code does with it)
	_, _, n, _ := e.heapGhost()
	cnt := sel(e.hget(st, n), owner)
	arr := e.alloc(st)
	ns := e.sc.freshName("heap.slice")
	e.sc.define(ns, "Slice", fmt.Sprintf("(mk_slice %s 0 %s %s)", arr, cnt, cnt))
	em := e.elemHeap(sl.Elem())
	na := e.sc.freshConst("heap.elems", "(Array Int "+e.sc.sortOf(sl.Elem())+")")
	e.hset(st, em, sto(e.hget(st, em), arr, na))
	e.store(st, loc, ns)
	e.sc.assume(st.reach, e.heapLink(st, owner, ns, sl.Elem()))
}
