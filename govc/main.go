package main

import (
	"flag"
	"fmt"
	"os"
	"sort"
	"strings"
	"sync"
	"time"
)

var repoDir = "/repo"
var verifDir = "/verif"

func main() {
	if len(os.Args) < 2 {
		fmt.Fprintln(os.Stderr, "usage: govc <units|ssa|verify|check|ghost> ...")
		os.Exit(2)
	}
	if d := os.Getenv("GOVC_REPO"); d != "" {
		repoDir = d
	}
	if d := os.Getenv("GOVC_VERIF"); d != "" {
		verifDir = d
	}
	switch os.Args[1] {
	case "units":
		w := mustLoad()
		for _, p := range w.Order {
			var keys []string
			for k := range p.Contracts.Funcs {
				keys = append(keys, k)
			}
			sort.Strings(keys)
			for _, k := range keys {
				fmt.Printf("%s:%s\n", p.PP.Name, k)
			}
			for _, g := range p.Contracts.Ghosts {
				if g.Kind == "lemma" {
					fmt.Printf("%s:%s (lemma)\n", p.PP.Name, g.Name)
				}
			}
		}
	case "ghost":
		w := mustLoad()
		for _, p := range w.Order {
			if len(os.Args) > 2 && p.PP.Name != os.Args[2] {
				continue
			}
			fmt.Printf("// ---- %s ----\n%s\n", p.Path, p.GhostSrc)
		}
	case "ssa":
		w := mustLoad()
		for _, a := range os.Args[2:] {
			pk, key, _ := strings.Cut(a, ":")
			u, err := w.findUnit(pk, key)
			if err != nil {
				fmt.Fprintln(os.Stderr, err)
				os.Exit(2)
			}
			u.Fn.WriteTo(os.Stdout)
			for _, an := range u.Fn.AnonFuncs {
				an.WriteTo(os.Stdout)
			}
		}
	case "verify":
		fs := flag.NewFlagSet("verify", flag.ExitOnError)
		ms := fs.Int("ms", 10000, "per-query solver budget in ms")
		out := fs.String("out", "", "output dir for SMT files")
		verbose := fs.Bool("v", false, "verbose")
		fs.Parse(os.Args[2:])
		w := mustLoad()
		var units []*Unit
		for _, a := range fs.Args() {
			pk, key, _ := strings.Cut(a, ":")
			u, err := w.findUnit(pk, key)
			if err != nil {
				fmt.Fprintln(os.Stderr, "ENGINE-ERROR:", err)
				os.Exit(2)
			}
			units = append(units, u)
		}
		dir := *out
		if dir == "" {
			dir = fmt.Sprintf("%s/out/verify-%d", verifDir, os.Getpid())
		}
		rr := runUnits(w, units, dir, *ms, *ms)
		bad := printRun(rr, *verbose)
		if bad {
			os.Exit(1)
		}
	case "check":
		os.Exit(cmdCheck(os.Args[2:]))
	default:
		fmt.Fprintln(os.Stderr, "unknown command", os.Args[1])
		os.Exit(2)
	}
}

func mustLoad() *World {
	t0 := time.Now()
	w, err := loadWorld(repoDir, []string{"./internal/...", "./cmd/ck-client"})
	if err != nil {
		fmt.Fprintln(os.Stderr, "ENGINE-ERROR:", err)
		os.Exit(2)
	}
	if os.Getenv("GOVC_TIMING") != "" {
		fmt.Fprintf(os.Stderr, "load: %.1fs\n", time.Since(t0).Seconds())
	}
	return w
}

type UnitRun struct {
	Unit    *Unit
	Exec    *Exec
	Results []ObResult
	GenS    float64
	SolveS  float64
}

func runUnits(w *World, units []*Unit, dir string, quickMs, fallbackMs int) []*UnitRun {
	os.MkdirAll(dir, 0o755)
	runs := make([]*UnitRun, len(units))
	sem := make(chan struct{}, 16)
	var wg sync.WaitGroup
	var genMu sync.Mutex
	for i, u := range units {
		wg.Add(1)
		go func(i int, u *Unit) {
			defer wg.Done()
			t0 := time.Now()
			genMu.Lock() // go/types lazy structures are not safe for concurrent first use
			e := w.verifyUnit(u)
			genMu.Unlock()
			r := &UnitRun{Unit: u, Exec: e, GenS: time.Since(t0).Seconds()}
			t1 := time.Now()
			r.Results = solveUnit(e.sc, solveOpts{outDir: dir, quickMs: quickMs, fallbackMs: fallbackMs, sem: sem})
			r.SolveS = time.Since(t1).Seconds()
			runs[i] = r
		}(i, u)
	}
	wg.Wait()
	return runs
}

func printRun(rr []*UnitRun, verbose bool) bool {
	bad := false
	for _, r := range rr {
		np, nf := 0, 0
		for _, o := range r.Results {
			if o.IsCover {
				continue
			}
			if o.Status == "proved" {
				np++
			} else {
				nf++
			}
		}
		fmt.Printf("== %s: %d obligations, %d proved, %d not proved (gen %.1fs, solve %.1fs)\n", r.Unit.Name, np+nf, np, nf, r.GenS, r.SolveS)
		for _, m := range r.Exec.errs {
			fmt.Printf("   ENGINE: %s\n", m)
			bad = true
		}
		for _, o := range r.Results {
			if o.IsCover {
				if o.Status != "covered" {
					fmt.Printf("   COVER %-9s %s: %s\n", o.Status, o.Name, o.Msg)
					if o.Status == "vacuous" {
						bad = true
					}
				}
				continue
			}
			if o.Status != "proved" || verbose {
				fmt.Printf("   %-9s %s  [%s] %s  (%s) %s\n", o.Status, o.Name, o.Pos, o.Msg, o.Solver, o.File)
				if o.Status != "proved" {
					bad = true
					if verbose {
						fmt.Println(indent(truncate(o.Output, 3000), "      "))
					}
				}
			}
		}
		if verbose {
			var us []string
			for k := range r.Exec.sc.uncontracted {
				us = append(us, k)
			}
			sort.Strings(us)
			for _, k := range us {
				fmt.Printf("   uncontracted: %s\n", k)
			}
		}
	}
	return bad
}

func indent(s, pre string) string {
	return pre + strings.ReplaceAll(s, "\n", "\n"+pre)
}
