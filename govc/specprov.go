package main

import (
	"go/ast"
	"go/types"
)

// specProv: access path of a selector chain x.f.g in a contract, rooted at the named struct type of
// x: "pkg.T.f.g" (the way lock classes reached through library structs are named).
func (e *Exec) specProv(env *SpecEnv, x ast.Expr) string {
	var fields []string
	cur := x
	for {
		switch n := cur.(type) {
		case *ast.ParenExpr:
			cur = n.X
			continue
		case *ast.SelectorExpr:
			fields = append([]string{n.Sel.Name}, fields...)
			t := env.pkg.Info.TypeOf(n.X)
			if t != nil {
				tt := types.Unalias(t)
				if pt, ok := tt.Underlying().(*types.Pointer); ok {
					tt = types.Unalias(pt.Elem())
				}
				if nt, ok := tt.(*types.Named); ok && nt.Obj().Pkg() != nil && e.sc.isRepoPkg(nt.Obj().Pkg()) {
					p := structName(nt)
					for _, f := range fields {
						p += "." + sanitize(f)
					}
					return p
				}
			}
			cur = n.X
			continue
		}
		return ""
	}
}
