package main

// Symbolic execution of go/ssa (naive form) into verification conditions.
// One Exec per verification unit; Frames per function activation (the unit
// itself plus inlined closures / helpers).

import (
	"fmt"
	"go/token"
	"go/types"
	"sort"
	"strings"

	"golang.org/x/tools/go/ssa"
)

type LocKind int

const (
	LField LocKind = iota
	LElem
	LBox
	LCell
	LArray
	LGlobal
)

type Loc struct {
	Kind LocKind
	Base string // ref term (LField object, LBox box, LArray/LElem array ref)
	Idx  string // LElem: absolute index
	Map  string // LField: heap map name; LGlobal: heap scalar name
	Cell string // LCell key
	Typ  types.Type
	Prov string // access path for lock classification, e.g. multiplex.streamBufferedPipe.rwCond.L
	Root string // object term at the root of Prov
	Off  string // LElem of a slice: slice offset and relative index (Idx = Off + Rel)
	Rel  string
}

type Val struct {
	T      string
	Typ    types.Type
	Loc    *Loc
	Tuple  []Val
	Fn     *ssa.Function // statically known function value
	Bind   []Val         // closure bindings
	NonNil bool
	Prov   string
	Root   string
}

type deferRec struct {
	call *ssa.CallCommon
	args []Val
	fnv  Val
	pos  token.Pos
}

type State struct {
	reach     string
	heap      map[string]string
	base      string
	cells     map[string]string
	defers    []*deferRec
	panicking bool
	acq       *State    // heap snapshot taken right after the most recent lock acquisition (for acq(...) in contracts)
	priv      []privBox // boxes of captured locals that never escape, allocated on every path to here (escape.go)
}

func (s *State) clone() *State {
	n := &State{reach: s.reach, base: s.base, heap: make(map[string]string, len(s.heap)), cells: make(map[string]string, len(s.cells)), panicking: s.panicking}
	for k, v := range s.heap {
		n.heap[k] = v
	}
	for k, v := range s.cells {
		n.cells[k] = v
	}
	n.defers = append([]*deferRec{}, s.defers...)
	n.acq = s.acq
	n.priv = append([]privBox{}, s.priv...)
	return n
}

type Frame struct {
	id        int
	fn        *ssa.Function
	fc        *FuncContract
	pkg       *Pkg
	regs      map[ssa.Value]Val
	params    map[string]Val // entry values by name
	locals    map[string]*ssa.Alloc
	entry     *State // snapshot at entry (for old())
	retStates []*State
	retVals   [][]Val
	retPos    []token.Pos
	panics    []*State
	recovers  bool
	top       bool
	freeVars  map[*ssa.FreeVar]Val
	blockNN   map[string]bool // per-block non-nil cache
	rangeIt   map[ssa.Value]*rangeInfo
	curLoop   *loopInfo
	depth     int
	outer     *Frame // inlined activation: the frame of the caller
	edgeReach map[edgeKey]string
	frameT    map[string][]modTarget
	loopHavoc map[*ssa.BasicBlock][]string
	loopKeep  map[string]bool
	loopHead  map[*ssa.BasicBlock]*State
	iterStart map[*ssa.BasicBlock]*State // state at the loop head (beginning of an arbitrary iteration)
}

type rangeInfo struct {
	mapVal  Val
	visited string // heap-like ghost name holding (Array K Bool)
	keySort string
}

type loopInfo struct {
	header *ssa.BasicBlock
	ord    int
	blocks map[*ssa.BasicBlock]bool
	rng    *rangeInfo
}

type Exec struct {
	w            *World
	sc           *Script
	heapSort     map[string]string
	nframe       int
	counts       map[string]int // obligation ordinal per (unit,kind)
	unit         string
	errs         []string
	lockCls      map[string]string
	inlineDepth  int
	siteCount    map[string]int
	pendingBoxes []boxedArg
	cellFns      map[string]Val
	heapElemType map[string]types.Type
	dual         bool
	curCall      ssa.Instruction
	preAlloc     string
	calledNamed  map[string]bool       // contract keys mentioned in called("...") clauses of this unit
	cellTypes    map[string]types.Type // shared cells (escape.go): key -> type
	succNamed    map[string]bool       // keys mentioned in succeeded("...") clauses of this unit
	callsNamed   map[string]bool       // keys mentioned in calls("...") clauses of this unit
	lastretNamed map[string]bool       // keys mentioned in lastret("...") clauses of this unit
	seenCallee   map[string]bool       // callee keys for which a call was executed (vacuity guard for the path facts)
}

func (e *Exec) sawCallee(key string) {
	if e.seenCallee == nil {
		e.seenCallee = map[string]bool{}
	}
	e.seenCallee[key] = true
}

type privBox struct{ heap, ref string }

func newExec(w *World, unit string) *Exec {
	e := &Exec{w: w, sc: newScript(w, unit), heapSort: map[string]string{}, counts: map[string]int{}, unit: unit, siteCount: map[string]int{}, cellFns: map[string]Val{}}
	e.heapSort["G_alloc"] = "Int"
	e.heapSort["G_held"] = "(Array Int Bool)"
	return e
}

func (e *Exec) errorf(format string, a ...interface{}) {
	e.errs = append(e.errs, fmt.Sprintf(format, a...))
}

func (e *Exec) obName(kind string) string {
	e.counts[kind]++
	return fmt.Sprintf("%s#%s.%d", e.unit, kind, e.counts[kind])
}

func (e *Exec) nextCount(kind string) int {
	e.counts[kind]++
	return e.counts[kind]
}

func (e *Exec) pos(p token.Pos) string {
	if !p.IsValid() {
		return "?"
	}
	pp := e.w.Fset.Position(p)
	return fmt.Sprintf("%s:%d", strings.TrimPrefix(pp.Filename, e.w.RepoDir+"/"), pp.Line)
}

// ---------- heap ----------

func (e *Exec) hget(st *State, name string) string {
	if t, ok := st.heap[name]; ok {
		return t
	}
	srt, ok := e.heapSort[name]
	if !ok {
		panic("heap map without sort: " + name)
	}
	n := name + "@" + st.base
	if name == "G_in" {
		// the bytes a peer sends are a fixed (unknown) sequence: no code changes them
		n = name + "@0"
	}
	if !e.sc.declared[n] {
		e.sc.declGlobalConst(n, srt)
		at := ""
		if name != "G_alloc" {
			at = e.sc.declGlobalConst("G_alloc@"+st.base, "Int")
		}
		e.typeAxiom(name, n, true, at)
	}
	return n
}

// typeAxiom: every value stored in a typed heap map is a valid value of its Go type
// (well-typed heap). Emitted for each fresh version of a field map.
func (e *Exec) typeAxiom(name, term string, global bool, allocTerm string) {
	if name == "GD_val" {
		// the ghost database stores bytes
		ax := fmt.Sprintf("(forall ((b Str) (k Str) (i Int)) (! (and (<= 0 (select (select (select %s b) k) i)) (<= (select (select (select %s b) k) i) 255)) :pattern ((select (select (select %s b) k) i))))", term, term, term)
		if global {
			e.sc.axiom("type:"+term, ax)
		} else {
			e.sc.assume("true", ax)
		}
		return
	}
	t, ok := e.heapElemType[name]
	if !ok {
		return
	}
	if name == "E_Int" {
		ax := fmt.Sprintf("(forall ((r Int) (i Int)) (! (and (<= 0 (select (select %s r) i)) (<= (select (select %s r) i) 255)) :pattern ((select (select %s r) i))))", term, term, term)
		if global {
			e.sc.axiom("type:"+term, ax)
		} else {
			e.sc.assume("true", ax)
		}
		return
	}
	f := e.sc.rangeFact("(select "+term+" r)", t)
	// well-formed heap: references stored in the heap denote objects allocated so far
	if allocTerm != "" {
		// (only for objects that exist in this version of the heap: the slots of objects allocated later -
		// e.g. fresh results of contracted callees, whose fields the callee's postcondition describes -
		// are not constrained)
		tmp := &State{heap: map[string]string{"G_alloc": allocTerm}, cells: map[string]string{}}
		if af := e.allocFact(tmp, "(select "+term+" r)", t); af != "true" {
			e.sc.declFun("root", []string{"Int"}, "Int")
			f = and(f, implies("(<= (root r) "+allocTerm+")", af))
		}
	}
	if f == "true" {
		return
	}
	ax := fmt.Sprintf("(forall ((r Int)) (! %s :pattern ((select %s r))))", f, term)
	if global {
		e.sc.axiom("type:"+term, ax)
	} else {
		e.sc.assume("true", ax)
	}
}

func (e *Exec) hset(st *State, name, term string) {
	// name the new version to keep terms small
	srt := e.heapSort[name]
	n := e.sc.freshName(name)
	e.sc.define(n, srt, term)
	st.heap[name] = n
}

func (e *Exec) hhavoc(st *State, name string) string {
	srt := e.heapSort[name]
	n := e.sc.freshConst(name, srt)
	st.heap[name] = n
	at := ""
	if name != "G_alloc" {
		at = e.hget(st, "G_alloc")
	}
	e.typeAxiom(name, n, false, at)
	return n
}

func (e *Exec) heapMap(name, sort string) string {
	if old, ok := e.heapSort[name]; ok && old != sort {
		panic(fmt.Sprintf("heap map %s sort clash %s vs %s", name, old, sort))
	}
	e.heapSort[name] = sort
	return name
}

type fieldKind int

const (
	fkScalar fieldKind = iota
	fkStruct
	fkArray
)

func (e *Exec) fieldKindOf(ft types.Type) fieldKind {
	ft = types.Unalias(ft)
	if isTimeTime(ft) {
		return fkScalar
	}
	switch ft.Underlying().(type) {
	case *types.Struct:
		if e.sc.opaqueStruct(ft) {
			return fkScalar
		}
		return fkStruct
	case *types.Array:
		return fkArray
	}
	return fkScalar
}

func (e *Exec) fieldMap(st types.Type, i int) string {
	u := st.Underlying().(*types.Struct)
	name := "F_" + structName(st) + "." + sanitize(u.Field(i).Name())
	if e.heapElemType == nil {
		e.heapElemType = map[string]types.Type{}
	}
	e.heapElemType[name] = u.Field(i).Type()
	return e.heapMap(name, "(Array Int "+e.sc.sortOf(u.Field(i).Type())+")")
}

func (e *Exec) embFun(st types.Type, i int) string {
	u := st.Underlying().(*types.Struct)
	name := "emb_" + structName(st) + "." + sanitize(u.Field(i).Name())
	if !e.sc.declared[name] {
		e.sc.declFun(name, []string{"Int"}, "Int")
		e.sc.declFun(name+"_inv", []string{"Int"}, "Int")
		e.sc.declFun("emb_tag", []string{"Int"}, "Int")
		tag := e.sc.typeTag(types.NewPointer(types.NewTuple(types.NewVar(0, nil, name, types.Typ[types.Int])))) // unique number
		e.sc.declFun("root", []string{"Int"}, "Int")
		e.sc.axiom(name, fmt.Sprintf("(forall ((r Int)) (! (and (= (%s_inv (%s r)) r) (= (emb_tag (%s r)) %s) (< (%s r) 0) (= (root (%s r)) (root r))) :pattern ((%s r))))", name, name, name, tag, name, name, name))
	}
	return name
}

func (e *Exec) elemHeap(elem types.Type) string {
	srt := e.sc.sortOf(elem)
	tag := sortTag(srt)
	// byte arrays live in their own heap (Go's type system keeps []byte apart from other integer
	// slices), which gives every element read the 0..255 range for free
	if b, ok := types.Unalias(elem).Underlying().(*types.Basic); ok && b.Kind() == types.Uint8 {
		name := e.heapMap("E_Int", "(Array Int (Array Int Int))")
		if e.heapElemType == nil {
			e.heapElemType = map[string]types.Type{}
		}
		e.heapElemType[name] = types.NewSlice(types.Typ[types.Uint8])
		return name
	}
	if srt == "Int" {
		tag = "IntW"
	}
	return e.heapMap("E_"+tag, "(Array Int (Array Int "+srt+"))")
}

func (e *Exec) boxHeap(t types.Type) string {
	srt := e.sc.sortOf(t)
	return e.heapMap("B_"+sortTag(srt), "(Array Int "+srt+")")
}

func (e *Exec) mapHeaps(m *types.Map) (mv, md, mc string) {
	ks, vs := e.sc.sortOf(m.Key()), e.sc.sortOf(m.Elem())
	vtag := sortTag(vs)
	// maps whose values are pointers to different struct types are different Go types, hence different
	// objects: keep them in separate heaps (no aliasing questions between, say, the active-user map and
	// the usage queue)
	if pt, ok := types.Unalias(m.Elem()).Underlying().(*types.Pointer); ok {
		if nt, ok := types.Unalias(pt.Elem()).(*types.Named); ok {
			if _, isStruct := nt.Underlying().(*types.Struct); isStruct {
				vtag = "P" + sanitize(structName(nt))
			}
		}
	}
	mv = e.heapMap("MV_"+sortTag(ks)+"_"+vtag, "(Array Int (Array "+ks+" "+vs+"))")
	md = e.heapMap("MD_"+sortTag(ks)+"_"+vtag, "(Array Int (Array "+ks+" Bool))")
	mc = e.heapMap("MC", "(Array Int Int)")
	return
}

func (e *Exec) alloc(st *State) string {
	a := e.hget(st, "G_alloc")
	r := e.sc.freshName("ref")
	e.sc.define(r, "Int", "(+ "+a+" 1)")
	e.hset(st, "G_alloc", r)
	return r
}

func (e *Exec) allocFact(st *State, term string, t types.Type) string {
	t = types.Unalias(t)
	a := e.hget(st, "G_alloc")
	switch u := t.Underlying().(type) {
	case *types.Pointer, *types.Map, *types.Chan:
		// (the second conjunct follows from the first - roots of negative references are irrelevant, the
		// allocation counter is never negative - and spares the solver the detour through root())
		return "(and (<= (root " + term + ") " + a + ") (<= " + term + " " + a + "))"
	case *types.Slice:
		return "(and (<= (root (s_arr " + term + ")) " + a + ") (<= (s_arr " + term + ") " + a + "))"
	case *types.Interface:
		return "(<= (root (i_val " + term + ")) " + a + ")"
	case *types.Struct:
		if e.sc.opaqueStruct(t) || isTimeTime(t) {
			return "true"
		}
		var fs []string
		for i := 0; i < u.NumFields(); i++ {
			fs = append(fs, e.allocFact(st, app(e.sc.accessor(t, i), term), u.Field(i).Type()))
		}
		return and(fs...)
	}
	return "true"
}

func (e *Exec) loadStruct(st *State, ref string, t types.Type) string {
	u := t.Underlying().(*types.Struct)
	nm := e.sc.sortOf(t)
	if u.NumFields() == 0 {
		return "mk_" + nm
	}
	var fs []string
	for i := 0; i < u.NumFields(); i++ {
		ft := u.Field(i).Type()
		switch e.fieldKindOf(ft) {
		case fkScalar:
			fs = append(fs, sel(e.hget(st, e.fieldMap(t, i)), ref))
		case fkStruct:
			fs = append(fs, e.loadStruct(st, app(e.embFun(t, i), ref), ft))
		case fkArray:
			at := ft.Underlying().(*types.Array)
			fs = append(fs, sel(e.hget(st, e.elemHeap(at.Elem())), app(e.embFun(t, i), ref)))
		}
	}
	return fmt.Sprintf("(mk_%s %s)", nm, strings.Join(fs, " "))
}

func (e *Exec) storeStruct(st *State, ref string, t types.Type, v string) {
	u := t.Underlying().(*types.Struct)
	for i := 0; i < u.NumFields(); i++ {
		ft := u.Field(i).Type()
		fv := app(e.sc.accessor(t, i), v)
		switch e.fieldKindOf(ft) {
		case fkScalar:
			m := e.fieldMap(t, i)
			e.hset(st, m, sto(e.hget(st, m), ref, fv))
		case fkStruct:
			e.storeStruct(st, app(e.embFun(t, i), ref), ft, fv)
		case fkArray:
			at := ft.Underlying().(*types.Array)
			m := e.elemHeap(at.Elem())
			e.hset(st, m, sto(e.hget(st, m), app(e.embFun(t, i), ref), fv))
		}
	}
}

func isStructT(t types.Type) bool {
	_, ok := types.Unalias(t).Underlying().(*types.Struct)
	return ok
}

func (e *Exec) isModelStruct(t types.Type) bool {
	return isStructT(t) && !e.sc.opaqueStruct(t) && !isTimeTime(t)
}

// locOf normalises a pointer value to a location.
func (e *Exec) locOf(p Val) *Loc {
	if p.Loc != nil {
		return p.Loc
	}
	pt, ok := types.Unalias(p.Typ).Underlying().(*types.Pointer)
	if !ok {
		panic("locOf on non-pointer " + p.Typ.String())
	}
	el := pt.Elem()
	if _, isArr := types.Unalias(el).Underlying().(*types.Array); isArr {
		return &Loc{Kind: LArray, Base: p.T, Typ: el}
	}
	return &Loc{Kind: LBox, Base: p.T, Typ: el}
}

func (e *Exec) load(st *State, l *Loc) string {
	switch l.Kind {
	case LField:
		return sel(e.hget(st, l.Map), l.Base)
	case LElem:
		if l.Off != "" {
			return e.at(l.Typ, sel(e.hget(st, e.elemHeap(l.Typ)), l.Base), l.Off, l.Rel)
		}
		return sel(sel(e.hget(st, e.elemHeap(l.Typ)), l.Base), l.Idx)
	case LBox:
		if e.isModelStruct(l.Typ) {
			return e.loadStruct(st, l.Base, l.Typ)
		}
		return sel(e.hget(st, e.boxHeap(l.Typ)), l.Base)
	case LCell:
		if v, ok := st.cells[l.Cell]; ok {
			return v
		}
		return e.sc.zeroOf(l.Typ)
	case LArray:
		at := l.Typ.Underlying().(*types.Array)
		return sel(e.hget(st, e.elemHeap(at.Elem())), l.Base)
	case LGlobal:
		return e.hget(st, l.Map)
	}
	panic("bad loc")
}

func (e *Exec) store(st *State, l *Loc, v string) {
	switch l.Kind {
	case LField:
		e.hset(st, l.Map, sto(e.hget(st, l.Map), l.Base, v))
	case LElem:
		m := e.elemHeap(l.Typ)
		h := e.hget(st, m)
		e.hset(st, m, sto(h, l.Base, sto(sel(h, l.Base), l.Idx, v)))
	case LBox:
		if e.isModelStruct(l.Typ) {
			e.storeStruct(st, l.Base, l.Typ, v)
			return
		}
		m := e.boxHeap(l.Typ)
		e.hset(st, m, sto(e.hget(st, m), l.Base, v))
	case LCell:
		st.cells[l.Cell] = v
	case LArray:
		at := l.Typ.Underlying().(*types.Array)
		m := e.elemHeap(at.Elem())
		e.hset(st, m, sto(e.hget(st, m), l.Base, v))
	case LGlobal:
		e.hset(st, l.Map, v)
	}
}

// zeroObject initialises a freshly allocated struct at ref.
func (e *Exec) zeroObject(st *State, ref string, t types.Type) {
	e.storeStruct(st, ref, t, e.sc.zeroOf(t))
}

// ---------- state merging ----------

func (e *Exec) merge(states []*State) *State {
	var live []*State
	for _, s := range states {
		if s != nil && s.reach != "false" {
			live = append(live, s)
		}
	}
	if len(live) == 0 {
		return nil
	}
	if len(live) == 1 {
		return live[0].clone()
	}
	out := &State{heap: map[string]string{}, cells: map[string]string{}, base: live[0].base, panicking: live[0].panicking}
	for _, pb := range live[0].priv {
		everywhere := true
		for _, s := range live[1:] {
			found := false
			for _, q := range s.priv {
				if q == pb {
					found = true
				}
			}
			if !found {
				everywhere = false
			}
		}
		if everywhere {
			out.priv = append(out.priv, pb)
		}
	}
	var rs []string
	mixed := false
	for _, s := range live {
		rs = append(rs, s.reach)
		if s.base != out.base {
			mixed = true
		}
	}
	rn := e.sc.freshName("reach")
	e.sc.define(rn, "Bool", or(rs...))
	out.reach = rn
	keys := map[string]bool{}
	for _, s := range live {
		for k := range s.heap {
			keys[k] = true
		}
	}
	if mixed {
		// some paths went through a "havoc everything" (unknown callee, modifies *): every heap map known
		// so far is merged explicitly; maps first touched later start from a fresh unknown value
		for k := range e.heapSort {
			keys[k] = true
		}
		out.base = e.sc.freshName("J")
	}
	ks := make([]string, 0, len(keys))
	for k := range keys {
		ks = append(ks, k)
	}
	sort.Strings(ks)
	for _, k := range ks {
		t := e.hget(live[len(live)-1], k)
		same := true
		for _, s := range live {
			if e.hget(s, k) != t {
				same = false
			}
		}
		if same {
			out.heap[k] = t
			continue
		}
		for i := len(live) - 2; i >= 0; i-- {
			t = ite(live[i].reach, e.hget(live[i], k), t)
		}
		n := e.sc.freshName(k)
		e.sc.define(n, e.heapSort[k], t)
		out.heap[k] = n
	}
	ckeys := map[string]bool{}
	for _, s := range live {
		for k := range s.cells {
			ckeys[k] = true
		}
	}
	cks := make([]string, 0, len(ckeys))
	for k := range ckeys {
		cks = append(cks, k)
	}
	sort.Strings(cks)
	for _, k := range cks {
		var t string
		have := false
		same := true
		for _, s := range live {
			v, ok := s.cells[k]
			if !ok {
				continue
			}
			if !have {
				t, have = v, true
			} else if v != t {
				same = false
			}
		}
		missing := false
		for _, s := range live {
			if _, ok := s.cells[k]; !ok {
				missing = true
			}
		}
		if missing {
			// cell only defined on some paths (declared later in the function): keep the defined value
			// where defined; undefined paths never read it before writing.
		}
		if same {
			out.cells[k] = t
			continue
		}
		var acc string
		first := true
		for i := len(live) - 1; i >= 0; i-- {
			v, ok := live[i].cells[k]
			if !ok {
				continue
			}
			if first {
				acc, first = v, false
			} else {
				acc = ite(live[i].reach, v, acc)
			}
		}
		out.cells[k] = acc
	}
	// acquisition snapshots: merged with the same guards
	sameAcq := true
	for _, s := range live {
		if s.acq != live[0].acq {
			sameAcq = false
		}
	}
	if sameAcq {
		out.acq = live[0].acq
	} else {
		var snaps []*State
		ok := true
		for _, s := range live {
			if s.acq == nil {
				ok = false
				break
			}
			c := s.acq.clone()
			c.acq = nil
			c.reach = s.reach
			snaps = append(snaps, c)
		}
		if ok {
			out.acq = e.merge(snaps)
		}
	}
	// defers: must agree (take longest common; differing stacks are rare)
	out.defers = append([]*deferRec{}, live[0].defers...)
	for _, s := range live[1:] {
		if len(s.defers) != len(out.defers) {
			if len(s.defers) > len(out.defers) {
				out.defers = append([]*deferRec{}, s.defers...)
			}
		}
	}
	return out
}

// ---------- frames & block scheduling ----------

func (e *Exec) newFrame(fn *ssa.Function, top bool) *Frame {
	e.nframe++
	fr := &Frame{id: e.nframe, fn: fn, regs: map[ssa.Value]Val{}, params: map[string]Val{}, locals: map[string]*ssa.Alloc{}, top: top, freeVars: map[*ssa.FreeVar]Val{}, rangeIt: map[ssa.Value]*rangeInfo{}}
	if fn.Pkg != nil {
		fr.pkg = e.w.Pkgs[fn.Pkg.Pkg.Path()]
	}
	if fr.pkg != nil {
		fr.fc = fr.pkg.Contracts.Funcs[contractKeyOf(fn)]
	}
	for _, b := range fn.Blocks {
		for _, in := range b.Instrs {
			if a, ok := in.(*ssa.Alloc); ok && a.Comment != "" {
				if _, dup := fr.locals[a.Comment]; !dup {
					fr.locals[a.Comment] = a
				} else if a.Comment == "rangeindex" {
					for k := 2; k < 10; k++ {
						nm := fmt.Sprintf("rangeindex_%d", k)
						if _, dup := fr.locals[nm]; !dup {
							fr.locals[nm] = a
							break
						}
					}
				}
			}
		}
	}
	fr.recovers = fn.Recover != nil && funcRecovers(fn)
	return fr
}

// funcRecovers: some deferred closure of fn calls recover().
func funcRecovers(fn *ssa.Function) bool {
	for _, b := range fn.Blocks {
		for _, in := range b.Instrs {
			d, ok := in.(*ssa.Defer)
			if !ok {
				continue
			}
			var callee *ssa.Function
			switch v := d.Call.Value.(type) {
			case *ssa.MakeClosure:
				callee, _ = v.Fn.(*ssa.Function)
			case *ssa.Function:
				callee = v
			}
			if calleeRecovers(callee) {
				return true
			}
		}
	}
	return false
}

func calleeRecovers(callee *ssa.Function) bool {
	if callee == nil {
		return false
	}
	for _, cb := range callee.Blocks {
		for _, ci := range cb.Instrs {
			if c, ok := ci.(*ssa.Call); ok {
				if bi, ok := c.Call.Value.(*ssa.Builtin); ok && bi.Name() == "recover" {
					return true
				}
			}
		}
	}
	return false
}

// protected: a panic raised in this state is caught, i.e. a deferred closure that calls recover()
// has already been registered on the path (a panic before the defer statement escapes).
func (e *Exec) protected(fr *Frame, st *State) bool {
	if !fr.recovers {
		return false
	}
	for _, d := range st.defers {
		if d.fnv.Fn != nil && calleeRecovers(d.fnv.Fn) {
			return true
		}
		switch v := d.call.Value.(type) {
		case *ssa.MakeClosure:
			if f, _ := v.Fn.(*ssa.Function); calleeRecovers(f) {
				return true
			}
		case *ssa.Function:
			if calleeRecovers(v) {
				return true
			}
		}
	}
	return false
}

type edgeKey struct {
	from, to *ssa.BasicBlock
}

// loopsOf computes loop headers (targets of back edges) and their bodies.
func loopsOf(fn *ssa.Function) (headers []*ssa.BasicBlock, back map[edgeKey]bool, body map[*ssa.BasicBlock]map[*ssa.BasicBlock]bool) {
	back = map[edgeKey]bool{}
	body = map[*ssa.BasicBlock]map[*ssa.BasicBlock]bool{}
	if len(fn.Blocks) == 0 {
		return
	}
	color := map[*ssa.BasicBlock]int{}
	var dfs func(b *ssa.BasicBlock)
	hs := map[*ssa.BasicBlock]bool{}
	dfs = func(b *ssa.BasicBlock) {
		color[b] = 1
		for _, s := range b.Succs {
			if color[s] == 1 {
				back[edgeKey{b, s}] = true
				hs[s] = true
			} else if color[s] == 0 {
				dfs(s)
			}
		}
		color[b] = 2
	}
	dfs(fn.Blocks[0])
	if fn.Recover != nil && color[fn.Recover] == 0 {
		dfs(fn.Recover)
	}
	for h := range hs {
		headers = append(headers, h)
		// natural loop body: nodes that can reach a back-edge source without passing h
		bd := map[*ssa.BasicBlock]bool{h: true}
		var stack []*ssa.BasicBlock
		for ek := range back {
			if ek.to == h && !bd[ek.from] {
				bd[ek.from] = true
				stack = append(stack, ek.from)
			}
		}
		for len(stack) > 0 {
			n := stack[len(stack)-1]
			stack = stack[:len(stack)-1]
			for _, p := range n.Preds {
				if !bd[p] {
					bd[p] = true
					stack = append(stack, p)
				}
			}
		}
		body[h] = bd
	}
	sort.Slice(headers, func(i, j int) bool { return headers[i].Index < headers[j].Index })
	return
}

func topoOrder(fn *ssa.Function, back map[edgeKey]bool) []*ssa.BasicBlock {
	var order []*ssa.BasicBlock
	seen := map[*ssa.BasicBlock]bool{}
	var dfs func(b *ssa.BasicBlock)
	dfs = func(b *ssa.BasicBlock) {
		seen[b] = true
		for _, s := range b.Succs {
			if !seen[s] && !back[edgeKey{b, s}] {
				dfs(s)
			}
		}
		order = append(order, b)
	}
	dfs(fn.Blocks[0])
	for i, j := 0, len(order)-1; i < j; i, j = i+1, j-1 {
		order[i], order[j] = order[j], order[i]
	}
	return order
}

// runBody executes all blocks of fr.fn from entry state st.
// Returns the merged state at function exit (nil if no return is reachable) and merged results.
func (e *Exec) runBody(fr *Frame, st *State) (*State, []Val) {
	fn := fr.fn
	headers, back, bodies := loopsOf(fn)
	hdrOrd := map[*ssa.BasicBlock]int{}
	for i, h := range headers {
		hdrOrd[h] = i
	}
	if fr.fc != nil {
		for ord := range fr.fc.Loops {
			if ord >= len(headers) {
				e.errorf("%s: contract mentions loop %d but function has %d loops", fr.fn.Name(), ord, len(headers))
			}
		}
	}
	order := topoOrder(fn, back)
	edgeStates := map[edgeKey][]*State{}
	for _, b := range order {
		var in *State
		if b == fn.Blocks[0] {
			in = st
		} else {
			var ins []*State
			for _, p := range b.Preds {
				if back[edgeKey{p, b}] {
					continue
				}
				ins = append(ins, edgeStates[edgeKey{p, b}]...)
			}
			in = e.merge(ins)
		}
		if in == nil {
			continue
		}
		if ord, isH := hdrOrd[b]; isH {
			in = e.enterLoop(fr, in, b, ord, bodies[b])
			if in == nil {
				continue
			}
		}
		e.execBlock(fr, b, in, edgeStates, back, hdrOrd)
	}
	// panic paths -> deferred calls with recover -> Recover block
	if fr.recovers && len(fr.panics) > 0 {
		ps := e.merge(fr.panics)
		fr.panics = nil
		if ps != nil {
			ps.panicking = true
			e.runDefers(fr, ps)
			ps.panicking = false
			if fn.Recover != nil {
				es := map[edgeKey][]*State{}
				e.execBlock(fr, fn.Recover, ps, es, back, hdrOrd)
			}
		}
	}
	if len(fr.retStates) == 0 {
		return nil, nil
	}
	out := e.merge(fr.retStates)
	nres := fn.Signature.Results().Len()
	res := make([]Val, nres)
	for i := 0; i < nres; i++ {
		t := fn.Signature.Results().At(i).Type()
		var acc string
		for k := len(fr.retStates) - 1; k >= 0; k-- {
			if fr.retStates[k].reach == "false" {
				continue
			}
			v := fr.retVals[k][i].T
			if acc == "" {
				acc = v
			} else {
				acc = ite(fr.retStates[k].reach, v, acc)
			}
		}
		n := e.sc.freshName(fmt.Sprintf("f%d.ret%d", fr.id, i))
		e.sc.define(n, e.sc.sortOf(t), acc)
		res[i] = Val{T: n, Typ: t}
	}
	return out, res
}

func (e *Exec) execBlock(fr *Frame, b *ssa.BasicBlock, st *State, edgeStates map[edgeKey][]*State, back map[edgeKey]bool, hdrOrd map[*ssa.BasicBlock]int) {
	fr.blockNN = map[string]bool{}
	// name the reach condition
	rn := e.sc.freshName(fmt.Sprintf("f%d.b%d", fr.id, b.Index))
	e.sc.define(rn, "Bool", st.reach)
	st.reach = rn
	for _, in := range b.Instrs {
		if st.reach == "false" {
			return
		}
		switch x := in.(type) {
		case *ssa.If:
			c := e.val(fr, st, x.Cond).T
			ts := st.clone()
			ts.reach = and(st.reach, c)
			fs := st
			fs.reach = and(st.reach, not(c))
			e.flow(fr, b, b.Succs[0], ts, edgeStates, back, hdrOrd)
			e.flow(fr, b, b.Succs[1], fs, edgeStates, back, hdrOrd)
			return
		case *ssa.Jump:
			e.flow(fr, b, b.Succs[0], st, edgeStates, back, hdrOrd)
			return
		case *ssa.Return:
			vals := make([]Val, len(x.Results))
			for i, r := range x.Results {
				vals[i] = e.val(fr, st, r)
			}
			fr.retStates = append(fr.retStates, st)
			fr.retVals = append(fr.retVals, vals)
			fr.retPos = append(fr.retPos, x.Pos())
			return
		case *ssa.Panic:
			if e.protected(fr, st) {
				fr.panics = append(fr.panics, st)
			} else {
				e.sc.oblig(st.reach, "false", e.obName("panic"), "safety", "explicit panic is reachable", e.pos(x.Pos()))
			}
			return
		default:
			e.instr(fr, st, in)
		}
	}
}

func (e *Exec) flow(fr *Frame, from, to *ssa.BasicBlock, st *State, edgeStates map[edgeKey][]*State, back map[edgeKey]bool, hdrOrd map[*ssa.BasicBlock]int) {
	if back[edgeKey{from, to}] {
		ord := hdrOrd[to]
		e.checkInvariants(fr, st, ord, "preserved", to)
		// self-check of the havoc set: whatever differs from the loop-head state at the back edge must
		// have been havocked at the head, otherwise the loop would have been cut unsoundly
		if head := fr.loopHead[to]; head != nil && head.base == st.base {
			hv := map[string]bool{}
			for _, m := range fr.loopHavoc[to] {
				hv[m] = true
			}
			for m, t := range st.heap {
				if hv[m] || strings.HasPrefix(m, "G_visited") || m == "GB_signalled" {
					continue
				}
				if ht, ok := head.heap[m]; (ok && ht != t) || (!ok && t != e.hget(head, m)) {
					e.errorf("%s: loop %d modifies heap map %s which is missing from its havoc set (engine bug: effects of a model are incomplete)", fr.fn.Name(), ord, m)
				}
			}
		}
		return
	}
	k := edgeKey{from, to}
	if fr.edgeReach == nil {
		fr.edgeReach = map[edgeKey]string{}
	}
	if old, ok := fr.edgeReach[k]; ok {
		fr.edgeReach[k] = or(old, st.reach)
	} else {
		fr.edgeReach[k] = st.reach
	}
	edgeStates[k] = append(edgeStates[k], st)
}

// ---------- loops ----------

func (e *Exec) loopInvs(fr *Frame, ord int) []*Clause {
	if fr.fc == nil {
		return nil
	}
	var out []*Clause
	for _, c := range fr.fc.Loops[ord] {
		if c.Kind != "step" {
			out = append(out, c)
		}
	}
	return out
}

// loopSteps: "loop N step" clauses (postconditions of the loop body).
func (e *Exec) loopSteps(fr *Frame, ord int) []*Clause {
	if fr.fc == nil {
		return nil
	}
	var out []*Clause
	for _, c := range fr.fc.Loops[ord] {
		if c.Kind == "step" {
			out = append(out, c)
		}
	}
	return out
}

func (e *Exec) specEnvAt(fr *Frame, st *State) *SpecEnv {
	env := &SpecEnv{e: e, fr: fr, st: st, old: fr.entry, vars: map[string]Val{}, oldVars: fr.params}
	for n, v := range fr.params {
		env.vars[n] = v
	}
	// a closure sees the variables it captures (current values)
	for fv, v := range fr.freeVars {
		pt, ok := fv.Type().(*types.Pointer)
		if ok && e.isModelStruct(pt.Elem()) && v.T != "" {
			// a captured struct variable: its current value, field by field
			env.vars[fv.Name()] = Val{T: e.loadStruct(st, v.T, pt.Elem()), Typ: pt.Elem()}
			env.refs = appendRef(env.refs, fv.Name(), v.T)
			continue
		}
		if !ok || v.Loc == nil {
			continue
		}
		if v.Loc.Kind == LCell || v.Loc.Kind == LBox || v.Loc.Kind == LArray {
			env.vars[fv.Name()] = Val{T: e.load(st, v.Loc), Typ: pt.Elem()}
		}
	}
	for n, a := range fr.locals {
		t := a.Type().(*types.Pointer).Elem()
		loc := e.allocLoc(fr, st, a)
		if loc == nil {
			continue
		}
		if loc.Kind == LCell || loc.Kind == LBox || loc.Kind == LArray {
			if e.isModelStruct(t) {
				continue
			}
			env.vars[n] = Val{T: e.load(st, loc), Typ: t}
		}
	}
	// struct-typed locals: their alloc refs
	for n, a := range fr.locals {
		t := a.Type().(*types.Pointer).Elem()
		if e.isModelStruct(t) {
			if v, ok := fr.regs[a]; ok {
				env.vars[n] = Val{T: e.loadStruct(st, v.T, t), Typ: t}
				env.refs = appendRef(env.refs, n, v.T)
			}
		}
	}
	return env
}

func appendRef(m map[string]string, k, v string) map[string]string {
	if m == nil {
		m = map[string]string{}
	}
	m[k] = v
	return m
}

// allocLoc returns the location a local variable's Alloc denotes, if it has been executed.
func (e *Exec) allocLoc(fr *Frame, st *State, a *ssa.Alloc) *Loc {
	v, ok := fr.regs[a]
	if !ok {
		return nil
	}
	if v.Loc != nil {
		return v.Loc
	}
	return nil
}

func (e *Exec) checkInvariants(fr *Frame, st *State, ord int, phase string, hdr *ssa.BasicBlock) {
	invs := e.loopInvs(fr, ord)
	env := e.specEnvAt(fr, st)
	if li := fr.loopRange(hdr); li != nil {
		env.rng = li
	}
	for _, c := range invs {
		f := e.specBool(env, c)
		e.sc.oblig(st.reach, f, fmt.Sprintf("%s#inv-%s.%s", e.unit, phase, c.Label), "inv", fmt.Sprintf("loop invariant %s: %s", phase, c.Text), fmt.Sprintf("%s:%d", c.File, c.Line))
	}
	for _, ai := range e.autoInvs(fr, st, hdr, ord) {
		e.sc.oblig(st.reach, ai.f, fmt.Sprintf("%s#inv-%s.loop%d.%s", e.unit, phase, ord, ai.label), "inv", fmt.Sprintf("automatic loop invariant %s: %s", phase, ai.what), e.pos(hdr.Instrs[0].Pos()))
	}
	if phase == "preserved" {
		if head := fr.iterStart[hdr]; head != nil {
			senv := e.specEnvAt(fr, st)
			senv.old = head
			// old(x) of a local variable: its value at the beginning of the iteration
			senv.oldVars = e.specEnvAt(fr, head).vars
			if li := fr.loopRange(hdr); li != nil {
				senv.rng = li
			}
			for _, c := range e.loopSteps(fr, ord) {
				f := e.specBool(senv, c)
				e.sc.oblig(st.reach, f, fmt.Sprintf("%s#step.%s", e.unit, c.Label)+e.siteSuffix("step."+c.Label), "inv", fmt.Sprintf("holds at the end of every iteration: %s", c.Text), fmt.Sprintf("%s:%d", c.File, c.Line))
			}
		}
	}
}

type autoInv struct {
	label, what, f string
}

// autoInvs: invariants every loop gets without annotation:
//   - the hidden index of a range-over-slice loop stays >= -1
//   - the function's own frame condition for every heap map the loop may write
func (e *Exec) autoInvs(fr *Frame, st *State, hdr *ssa.BasicBlock, ord int) []autoInv {
	var out []autoInv
	if len(hdr.Instrs) > 0 {
		if u, ok := hdr.Instrs[0].(*ssa.UnOp); ok {
			if a, ok := u.X.(*ssa.Alloc); ok && a.Comment == "rangeindex" {
				if v, ok := fr.regs[a]; ok && v.Loc != nil {
					out = append(out, autoInv{"rangeindex", "range index >= -1", "(>= " + e.load(st, v.Loc) + " (- 1))"})
					// ... and below the bound it is compared with (t = index+1; t < bound)
					for _, in := range hdr.Instrs {
						if b, ok := in.(*ssa.BinOp); ok && b.Op == token.LSS {
							if bv, ok := fr.regs[b.Y]; ok && bv.T != "" && bv.Loc == nil {
								ri := e.load(st, v.Loc)
								out = append(out, autoInv{"rangebound", "range index below the length", "(or (= " + ri + " (- 1)) (< " + ri + " " + bv.T + "))"})
							}
						}
					}
				}
			}
		}
	}
	for _, h := range fr.loopHavoc[hdr] {
		if f, ok := e.frameFormula(fr, st, h); ok {
			out = append(out, autoInv{"frame." + h, "frame of " + h + " (modifies clause) holds throughout the loop", f})
		}
	}
	return out
}

func (fr *Frame) loopRange(hdr *ssa.BasicBlock) *rangeInfo {
	// a map-range loop header contains the Next instruction
	for _, in := range hdr.Instrs {
		if nx, ok := in.(*ssa.Next); ok {
			return fr.rangeIt[nx.Iter]
		}
	}
	return nil
}

func (e *Exec) enterLoop(fr *Frame, st *State, hdr *ssa.BasicBlock, ord int, body map[*ssa.BasicBlock]bool) *State {
	invs := e.loopInvs(fr, ord)
	if len(invs) == 0 && !(fr.fc != nil && fr.fc.Flags["autoloop"] != "") {
		// loops without an invariant are still cut soundly: everything written in the loop is havocked,
		// nothing is assumed. Note it.
		e.sc.uncontracted[fmt.Sprintf("loop %d of %s has no invariant (havoc only)", ord, fr.fn.Name())] = true
	}
	// "loop N complete": a structural obligation - every edge that leaves the loop starts at its header
	if fr.fc != nil {
		if lbl := fr.fc.Flags[fmt.Sprintf("complete.%d", ord)]; lbl != "" {
			early := ""
			for b := range body {
				if b == hdr {
					continue
				}
				for _, s := range b.Succs {
					if !body[s] && s != hdr {
						early = fmt.Sprintf("block %d leaves the loop", b.Index)
						if len(b.Instrs) > 0 {
							early += " at " + e.pos(b.Instrs[len(b.Instrs)-1].Pos())
						}
					}
				}
			}
			f := "true"
			if early != "" {
				f = "false"
			}
			e.sc.oblig(st.reach, f, fmt.Sprintf("%s#loop-exit.loop%d.%s", e.unit, ord, lbl), "post", fmt.Sprintf("loop %d is left only when its range is exhausted (no return or break inside the body)%s", ord, map[bool]string{true: ": " + early, false: ""}[early != ""]), e.pos(hdr.Instrs[0].Pos()))
		}
	}
	// havoc set first: the automatic frame invariants range over it
	fr.loopKeep = nil
	ws, all := e.writeSet(fr, body)
	if fr.loopHavoc == nil {
		fr.loopHavoc = map[*ssa.BasicBlock][]string{}
	}
	if !all {
		fr.loopHavoc[hdr] = ws
	}
	e.checkInvariants(fr, st, ord, "entry", hdr)
	ns := st.clone()
	if all {
		ns.heap = map[string]string{}
		ns.base = e.sc.freshName("L")
		// G_alloc only grows
		oldAlloc := e.hget(st, "G_alloc")
		e.sc.assume(st.reach, "(>= "+e.hget(ns, "G_alloc")+" "+oldAlloc+")")
		// field maps preserved by every "modifies *" callee and not written otherwise keep their values
		// for all objects that existed when the loop was entered
		written := map[string]bool{}
		for _, m := range ws {
			written[m] = true
		}
		for m := range fr.loopKeep {
			if written[m] {
				continue
			}
			if _, ok := e.heapSort[m]; !ok {
				continue
			}
			ns.heap[m] = e.hget(st, m)
		}
		// the held-lock set belongs to this goroutine: only lock operations change it
		if !written["G_held"] {
			ns.heap["G_held"] = e.hget(st, "G_held")
		}
	} else {
		for _, m := range ws {
			if m == "G_alloc" {
				oldAlloc := e.hget(st, "G_alloc")
				n := e.hhavoc(ns, m)
				e.sc.assume(st.reach, "(>= "+n+" "+oldAlloc+")")
				continue
			}
			e.hhavoc(ns, m)
		}
	}
	// the acquisition snapshot is part of the state: if the loop body (re)acquires a lock itself it is
	// havocked the same way (invariants re-link it); otherwise it stays what it was before the loop
	if st.acq != nil && !e.bodyAcquires(fr.fn, body, 0) {
		ns.acq = st.acq
	} else if st.acq != nil {
		na := st.acq.clone()
		na.acq = nil
		if all {
			na.heap = map[string]string{}
			na.base = e.sc.freshName("LA")
		} else {
			for _, m := range ws {
				if m != "G_alloc" {
					e.hhavoc(na, m)
				}
			}
		}
		ns.acq = na
	}
	// cells written in the loop
	for _, b := range fr.fn.Blocks {
		if !body[b] {
			continue
		}
		for _, in := range b.Instrs {
			if s, ok := in.(*ssa.Store); ok {
				if a, ok := s.Addr.(*ssa.Alloc); ok {
					if v, ok := fr.regs[a]; ok && v.Loc != nil && v.Loc.Kind == LCell {
						t := v.Loc.Typ
						n := e.sc.freshConst(fmt.Sprintf("f%d.%s", fr.id, a.Comment), e.sc.sortOf(t))
						ns.cells[v.Loc.Cell] = n
						e.sc.assume(st.reach, e.sc.rangeFact(n, t))
						e.sc.assume(st.reach, e.allocFact(ns, n, t))
					}
				}
			}
		}
	}
	// shared cells (captured locals, see escape.go) written by the loop body or by closures it runs;
	// when the body calls unknown code through function values, every shared cell
	{
		written := map[string]bool{}
		cellsWritten(fr.fn, body, written, map[*ssa.Function]bool{}, 0)
		var keys []string
		for k := range ns.cells {
			if strings.HasPrefix(k, "pc.") && (written[k] || all) {
				keys = append(keys, k)
			}
		}
		sort.Strings(keys)
		for _, k := range keys {
			t := e.cellTypes[k]
			if t == nil {
				continue
			}
			n := e.sc.freshConst("lc."+k, e.sc.sortOf(t))
			ns.cells[k] = n
			e.sc.assume(st.reach, e.sc.rangeFact(n, t))
			e.sc.assume(st.reach, e.allocFact(ns, n, t))
		}
	}
	env := e.specEnvAt(fr, ns)
	if li := fr.loopRange(hdr); li != nil {
		env.rng = li
	}
	for _, c := range invs {
		e.sc.assume(ns.reach, e.specBoolA(env, c))
	}
	for _, ai := range e.autoInvs(fr, ns, hdr, ord) {
		e.sc.assume(ns.reach, ai.f)
	}
	if fr.loopHead == nil {
		fr.loopHead = map[*ssa.BasicBlock]*State{}
	}
	if !all {
		fr.loopHead[hdr] = ns.clone()
	}
	if fr.iterStart == nil {
		fr.iterStart = map[*ssa.BasicBlock]*State{}
	}
	fr.iterStart[hdr] = ns.clone()
	return ns
}

// writeSet computes the heap maps possibly written by the blocks; all=true means unknown (everything).
func (e *Exec) writeSet(fr *Frame, body map[*ssa.BasicBlock]bool) (maps []string, all bool) {
	set := map[string]bool{}
	var visitFn func(fn *ssa.Function, blocks map[*ssa.BasicBlock]bool, depth int)
	addPtr := func(v ssa.Value) {
		switch a := v.(type) {
		case *ssa.FieldAddr:
			st := a.X.Type().Underlying().(*types.Pointer).Elem()
			u := st.Underlying().(*types.Struct)
			ft := u.Field(a.Field).Type()
			switch e.fieldKindOf(ft) {
			case fkScalar:
				set[e.fieldMap(st, a.Field)] = true
			case fkArray:
				set[e.elemHeap(ft.Underlying().(*types.Array).Elem())] = true
			case fkStruct:
				e.addAllFields(set, ft)
			}
		case *ssa.IndexAddr:
			switch t := a.X.Type().Underlying().(type) {
			case *types.Slice:
				set[e.elemHeap(t.Elem())] = true
			case *types.Pointer:
				set[e.elemHeap(t.Elem().Underlying().(*types.Array).Elem())] = true
			}
		case *ssa.Alloc:
			t := a.Type().(*types.Pointer).Elem()
			if a.Heap || isStructT(t) {
				if e.isModelStruct(t) {
					e.addAllFields(set, t)
				} else if at, ok := t.Underlying().(*types.Array); ok {
					set[e.elemHeap(at.Elem())] = true
				} else {
					set[e.boxHeap(t)] = true
				}
			} else if at, ok := t.Underlying().(*types.Array); ok {
				set[e.elemHeap(at.Elem())] = true
			}
		case *ssa.Global:
			set[e.globalName(a)] = true
		default:
			pt, ok := v.Type().Underlying().(*types.Pointer)
			if !ok {
				all = true
				return
			}
			el := pt.Elem()
			if e.isModelStruct(el) {
				e.addAllFields(set, el)
			} else if at, ok := el.Underlying().(*types.Array); ok {
				set[e.elemHeap(at.Elem())] = true
			} else {
				set[e.boxHeap(el)] = true
			}
		}
	}
	visitFn = func(fn *ssa.Function, blocks map[*ssa.BasicBlock]bool, depth int) {
		for _, b := range fn.Blocks {
			if blocks != nil && !blocks[b] {
				continue
			}
			for _, in := range b.Instrs {
				switch x := in.(type) {
				case *ssa.Store:
					addPtr(x.Addr)
				case *ssa.MapUpdate:
					mt := x.Map.Type().Underlying().(*types.Map)
					mv, md, mc := e.mapHeaps(mt)
					set[mv], set[md], set[mc] = true, true, true
				case *ssa.Alloc, *ssa.MakeSlice, *ssa.MakeMap, *ssa.MakeChan, *ssa.MakeInterface, *ssa.MakeClosure:
					set["G_alloc"] = true
					if a, ok := x.(*ssa.Alloc); ok {
						addPtr(a)
					}
					if ms, ok := x.(*ssa.MakeSlice); ok {
						set[e.elemHeap(ms.Type().Underlying().(*types.Slice).Elem())] = true
					}
					if mm, ok := x.(*ssa.MakeMap); ok {
						mv, md, mc := e.mapHeaps(mm.Type().Underlying().(*types.Map))
						set[mv], set[md], set[mc] = true, true, true
					}
				case *ssa.Slice:
					// string/slice slicing does not write
				case ssa.CallInstruction:
					eff, a := e.callEffects(fr, x.Common(), depth)
					if a {
						all = true
						// maps that every "modifies *" callee in the loop preserves
						pres := map[string]bool{}
						for _, m := range e.callPreserves(x.Common()) {
							pres[m] = true
						}
						if fr.loopKeep == nil {
							fr.loopKeep = pres
						} else {
							for m := range fr.loopKeep {
								if !pres[m] {
									delete(fr.loopKeep, m)
								}
							}
						}
					}
					for _, m := range eff {
						set[m] = true
					}
					if depth < 3 {
						if callee := e.inlineTarget(x.Common()); callee != nil {
							visitFn(callee, nil, depth+1)
						}
					}
				case *ssa.Send, *ssa.Select:
				}
			}
		}
	}
	visitFn(fr.fn, body, 0)
	for m := range set {
		maps = append(maps, m)
	}
	sort.Strings(maps)
	return
}

func (e *Exec) addAllFields(set map[string]bool, t types.Type) {
	u := t.Underlying().(*types.Struct)
	for i := 0; i < u.NumFields(); i++ {
		ft := u.Field(i).Type()
		switch e.fieldKindOf(ft) {
		case fkScalar:
			set[e.fieldMap(t, i)] = true
		case fkStruct:
			e.addAllFields(set, ft)
		case fkArray:
			set[e.elemHeap(ft.Underlying().(*types.Array).Elem())] = true
		}
	}
}

func (e *Exec) globalName(g *ssa.Global) string {
	t := g.Type().(*types.Pointer).Elem()
	pk := ""
	if g.Pkg != nil {
		pk = g.Pkg.Pkg.Name()
	}
	return e.heapMap("GV_"+sanitize(pk+"."+g.Name()), e.sc.sortOf(t))
}

// at(A, off, i) = A[off+i]: element access of a slice through a named function, so that quantifier
// patterns mention the relative index i itself and no arithmetic.
func (e *Exec) at(elem types.Type, arr, off, i string) string {
	srt := e.sc.sortOf(elem)
	name := "at_" + sortTag(srt)
	if !e.sc.declared[name] {
		e.sc.declFun(name, []string{"(Array Int " + srt + ")", "Int", "Int"}, srt)
		e.sc.axiom(name, fmt.Sprintf("(forall ((a (Array Int %s)) (o Int) (i Int)) (! (= (%s a o i) (select a (+ o i))) :pattern ((%s a o i))))", srt, name, name))
	}
	return app(name, arr, off, i)
}
