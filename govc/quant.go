package main

import (
	"fmt"
	"strings"
)

// absoluteForm rewrites a quantified body that indexes a slice through at(ARR, OFF, i) with the bound
// variable i into the equivalent statement over the absolute index q = OFF + i:
//
//	forall q. body[i := q - OFF]  with at(ARR, OFF, i) replaced by (select ARR q), pattern (select ARR q)
//
// The two forms are equivalent (at(a,o,i) = a[o+i] by definition); emitting both lets the solver
// instantiate the fact from either kind of term. Returns "" if the body has no such access.
func absoluteForm(bn string, body string) string {
	idx := 0
	for {
		k := strings.Index(body[idx:], "(at_")
		if k < 0 {
			return ""
		}
		start := idx + k
		end := matchParen(body, start)
		if end < 0 {
			return ""
		}
		args := splitArgs(body[start+1 : end])
		if len(args) == 4 && args[3] == bn && !strings.Contains(args[1], bn) && !strings.Contains(args[2], bn) {
			arr, off := args[1], args[2]
			q := bn + ".abs"
			term := body[start : end+1]
			nb := strings.ReplaceAll(body, term, "(select "+arr+" "+q+")")
			nb = replaceSymbol(nb, bn, "(- "+q+" "+off+")")
			return fmt.Sprintf("(forall ((%s Int)) (! %s :pattern ((select %s %s))))", q, nb, arr, q)
		}
		idx = start + 4
	}
}

func matchParen(s string, i int) int {
	d := 0
	for j := i; j < len(s); j++ {
		switch s[j] {
		case '(':
			d++
		case ')':
			d--
			if d == 0 {
				return j
			}
		}
	}
	return -1
}

func splitArgs(s string) []string {
	var out []string
	d := 0
	cur := ""
	for i := 0; i < len(s); i++ {
		c := s[i]
		if c == '(' {
			d++
		}
		if c == ')' {
			d--
		}
		if c == ' ' && d == 0 {
			if cur != "" {
				out = append(out, cur)
			}
			cur = ""
			continue
		}
		cur += string(c)
	}
	if cur != "" {
		out = append(out, cur)
	}
	return out
}

// replaceSymbol replaces whole-symbol occurrences of sym.
func replaceSymbol(s, sym, with string) string {
	var b strings.Builder
	i := 0
	for i < len(s) {
		if strings.HasPrefix(s[i:], sym) {
			before := i == 0 || s[i-1] == ' ' || s[i-1] == '('
			after := i+len(sym) == len(s) || s[i+len(sym)] == ' ' || s[i+len(sym)] == ')'
			if before && after {
				b.WriteString(with)
				i += len(sym)
				continue
			}
		}
		b.WriteByte(s[i])
		i++
	}
	return b.String()
}
