package main

import (
	"fmt"
	"runtime"
	"go/types"
	"sort"
	"strings"

	"golang.org/x/tools/go/ssa"
)

// Unit is one verification unit: a function under contract, or a lemma function.
type Unit struct {
	Name string // display name "pkg:(*T).m"
	Pkg  *Pkg
	Fn   *ssa.Function
	FC   *FuncContract
	Kind string // func | lemma | refine
	// Kind refine: FC is the contract of an INTERFACE method, Impl the contract of a concrete method
	// implementing it (Fn is the concrete method). The unit checks that Impl refines FC: under FC's
	// precondition Impl's precondition holds, and a call described by Impl's contract establishes FC's
	// postconditions and stays within FC's frame - so that call sites, which only know FC, are right
	// whenever the dynamic receiver is this implementation.
	Impl *FuncContract
}

func (w *World) findUnit(pkgName, key string) (*Unit, error) {
	p := w.pkgByName(pkgName)
	if p == nil {
		return nil, fmt.Errorf("unknown package %s", pkgName)
	}
	if i := strings.Index(key, " refines "); i > 0 {
		implKey, ifaceKey := strings.TrimSpace(key[:i]), strings.TrimSpace(key[i+9:])
		fn := p.funcByKey[implKey]
		mc := p.Contracts.Funcs[implKey]
		if fn == nil || mc == nil {
			return nil, fmt.Errorf("refinement unit: %s has no contract in package %s", implKey, pkgName)
		}
		ic := w.Contract[fullKey(p.Path, ifaceKey)]
		if ic == nil {
			ic = w.Contract[ifaceKey]
		}
		if ic == nil {
			return nil, fmt.Errorf("refinement unit: no contract for interface method %s", ifaceKey)
		}
		return &Unit{Name: pkgName + ":" + key, Pkg: p, Fn: fn, FC: ic, Impl: mc, Kind: "refine"}, nil
	}
	fn := p.funcByKey[key]
	if fn == nil {
		return nil, fmt.Errorf("function %s not found in package %s (contract out of date?)", key, pkgName)
	}
	u := &Unit{Name: pkgName + ":" + key, Pkg: p, Fn: fn, FC: p.Contracts.Funcs[key], Kind: "func"}
	for _, g := range p.Contracts.Ghosts {
		if g.Kind == "lemma" && g.Name == key {
			u.Kind = "lemma"
		}
	}
	return u, nil
}

// verifyUnit builds the VC script for a unit.
func (w *World) verifyUnit(u *Unit) (ret *Exec) {
	e := newExec(w, u.Name)
	defer func() {
		if r := recover(); r != nil {
			buf := make([]byte, 4096)
			n := runtime.Stack(buf, false)
			e.errorf("internal error while generating VCs for %s: %v\n%s", u.Name, r, buf[:n])
			ret = e
		}
	}()
	fn := u.Fn
	fr := e.newFrame(fn, true)
	st := &State{reach: "true", heap: map[string]string{}, cells: map[string]string{}, base: "0"}
	e.sc.assume("true", "(>= "+e.hget(st, "G_alloc")+" 0)")
	// parameters
	var pnames []string
	if u.FC != nil {
		pnames = u.FC.PNames
	}
	for i, p := range fn.Params {
		name := p.Name()
		if i < len(pnames) {
			name = pnames[i]
		}
		v := e.fresh(st, "p."+name, p.Type())
		v.Typ = p.Type()
		if i == 0 && fn.Signature.Recv() != nil {
			if _, ok := p.Type().(*types.Pointer); ok {
				e.sc.assume("true", "(not (= "+v.T+" 0))")
				v.NonNil = true
			}
		}
		fr.regs[p] = v
		if u.Kind == "refine" && i == 0 {
			// the interface contract speaks about the receiver as an interface value
			fr.params[name] = Val{T: e.makeIface(st, v), Typ: e.refineRecvType(u)}
			continue
		}
		fr.params[name] = v
	}
	if u.Kind == "refine" {
		fr.fc = u.FC
	}
	// closures verified on their own: every captured variable is an arbitrary cell
	for _, fv := range fn.FreeVars {
		pt, ok := fv.Type().(*types.Pointer)
		if !ok {
			continue
		}
		el := pt.Elem()
		if e.isModelStruct(el) {
			v := e.fresh(st, "fv."+fv.Name(), fv.Type())
			e.sc.assume("true", "(not (= "+v.T+" 0))")
			v.NonNil = true
			fr.freeVars[fv] = v
			continue
		}
		ref := e.fresh(st, "fvbox."+fv.Name(), fv.Type())
		e.sc.assume("true", "(not (= "+ref.T+" 0))")
		loc := &Loc{Kind: LBox, Base: ref.T, Typ: el}
		if isArrayT(el) {
			loc.Kind = LArray
		}
		fr.freeVars[fv] = Val{T: ref.T, Typ: fv.Type(), NonNil: true, Loc: loc}
		if !isArrayT(el) && !isStructT(el) && constCapture(fv) {
			st.priv = append(st.priv, privBox{e.boxHeap(el), ref.T})
		}
		if !isArrayT(el) {
			cur := e.load(st, loc)
			e.sc.assume("true", e.sc.rangeFact(cur, el))
			e.sc.assume("true", e.allocFact(st, cur, el))
			if _, dup := fr.params[fv.Name()]; !dup {
				fr.params[fv.Name()] = Val{T: cur, Typ: el}
			}
		}
	}
	// succeeded("F") flags named anywhere in the contract start out false
	if u.FC != nil {
		var texts []string
		for _, c := range u.FC.Ensures {
			texts = append(texts, c.Text)
		}
		for _, ac := range u.FC.AtCalls {
			texts = append(texts, ac.Clause.Text)
		}
		for _, l := range u.FC.Loops {
			for _, c := range l {
				texts = append(texts, c.Text)
			}
		}
		for _, t := range texts {
			for _, m := range succRe.FindAllStringSubmatch(t, -1) {
				st.heap[e.succFlag(m[1])] = "false"
				if e.succNamed == nil {
					e.succNamed = map[string]bool{}
				}
				e.succNamed[m[1]] = true
			}
			for _, m := range lastretRe.FindAllStringSubmatch(t, -1) {
				if e.lastretNamed == nil {
					e.lastretNamed = map[string]bool{}
				}
				e.lastretNamed[m[1]] = true
			}
			for _, m := range callsRe.FindAllStringSubmatch(t, -1) {
				if e.callsNamed == nil {
					e.callsNamed = map[string]bool{}
				}
				e.callsNamed[m[1]] = true
				st.heap[e.callsCounter(m[1])] = "0"
			}
			for _, m := range calledRe.FindAllStringSubmatch(t, -1) {
				if e.calledNamed == nil {
					e.calledNamed = map[string]bool{}
				}
				e.calledNamed[m[1]] = true
				st.heap[e.calledFlag(m[1])] = "false"
			}
		}
	}
	fr.entry = st.clone()
	env := &SpecEnv{e: e, fr: fr, st: st, old: fr.entry, vars: fr.params, oldVars: fr.params}
	if u.FC != nil {
		for _, c := range u.FC.Requires {
			e.sc.assume("true", e.specBoolA(env, c))
		}
	}
	e.sc.cover("true", u.Name+"#cover.pre", "precondition is satisfiable")
	var out *State
	var res []Val
	if u.Kind == "refine" {
		// the "body" is one call described by the implementation's contract
		var args []Val
		for _, p := range fn.Params {
			args = append(args, fr.regs[p])
		}
		if len(u.Impl.RepInvs) > 0 {
			iv := map[string]Val{}
			for i, n := range u.Impl.PNames {
				if i < len(args) {
					iv[n] = args[i]
				}
			}
			ienv := &SpecEnv{e: e, fr: fr, st: st, old: st, vars: iv, oldVars: iv}
			for _, c := range u.Impl.RepInvs {
				e.sc.assume("true", e.specBoolA(ienv, c))
				e.sc.used[fmt.Sprintf("representation invariant of %s assumed when it is entered through the interface: %s", u.Impl.Key, c.Text)] = true
			}
		}
		r := e.applyContract(fr, st, u.Impl, args, fn.Signature, fn.Pos())
		if r.Tuple != nil {
			res = r.Tuple
		} else if fn.Signature.Results().Len() == 1 {
			res = []Val{r}
		}
		out = st
	} else {
		out, res = e.runBody(fr, st)
	}
	if out == nil {
		if u.Kind != "lemma" {
			e.sc.uncontracted["function never returns normally (no postcondition checked)"] = true
		}
		return e
	}
	e.sc.cover(out.reach, u.Name+"#cover.exit", "normal exit is reachable")
	// vacuity guard for the path facts: succeeded("K") / called("K") / calls("K") / lastret("K") about a
	// callee K for which no call was executed in this unit would be constants (false / 0) - a clause built
	// on them is either trivially true or unprovable, never what its author meant
	for _, named := range []map[string]bool{e.succNamed, e.calledNamed, e.callsNamed, e.lastretNamed} {
		var ks []string
		for k := range named {
			ks = append(ks, k)
		}
		sort.Strings(ks)
		for _, k := range ks {
			if !e.seenCallee[k] {
				e.errorf("%s: the contract speaks about calls of %q (succeeded/called/calls/lastret), but no call with that key occurs in the function", u.Name, k)
			}
		}
	}
	if u.FC != nil {
		vars := map[string]Val{}
		for k, v := range fr.params {
			vars[k] = v
		}
		for i, n := range u.FC.RNames {
			if i < len(res) {
				vars[n] = res[i]
			}
		}
		env2 := &SpecEnv{e: e, fr: fr, st: out, old: fr.entry, vars: vars, oldVars: fr.params, results: res}
		if u.FC.Flags["perexit"] != "" && len(fr.retStates) > 1 {
			// postconditions checked at every return statement separately (same meaning as on the merged
			// exit state, but without the case distinctions of the merge inside every formula)
			for k, rs := range fr.retStates {
				if rs.reach == "false" {
					continue
				}
				v2 := map[string]Val{}
				for kk, v := range fr.params {
					v2[kk] = v
				}
				for i, n := range u.FC.RNames {
					if i < len(fr.retVals[k]) {
						v2[n] = fr.retVals[k][i]
					}
				}
				envk := &SpecEnv{e: e, fr: fr, st: rs, old: fr.entry, vars: v2, oldVars: fr.params, results: fr.retVals[k]}
				for _, c := range u.FC.Ensures {
					f := e.specBool(envk, c)
					at := ""
					if k < len(fr.retPos) {
						at = " (" + e.pos(fr.retPos[k]) + ")"
					}
					e.sc.oblig(rs.reach, f, fmt.Sprintf("%s#post.%s@exit%d", u.Name, c.Label, k+1), "post", fmt.Sprintf("postcondition at return %d%s: %s", k+1, at, c.Text), fmt.Sprintf("%s:%d", strings.TrimPrefix(c.File, w.RepoDir+"/"), c.Line))
				}
			}
		} else {
			for _, c := range u.FC.Ensures {
				f := e.specBool(env2, c)
				e.sc.oblig(out.reach, f, fmt.Sprintf("%s#post.%s", u.Name, c.Label), "post", "postcondition: "+c.Text, fmt.Sprintf("%s:%d", strings.TrimPrefix(c.File, w.RepoDir+"/"), c.Line))
			}
		}
		if u.FC.Flags["noframe"] == "" && !u.FC.ModAll {
			e.checkFrame(fr, env2, u.FC, out)
		}
		if u.FC.ModAll && u.FC.Flags["assumepreserves"] != "" {
			e.sc.used["the preserves clause of "+u.Name+" is assumed, not checked (flag assumepreserves): it bounds what callees outside this unit's reach may touch"] = true
		}
		if u.FC.ModAll && u.FC.Flags["assumepreserves"] == "" {
			a0 := e.hget(fr.entry, "G_alloc")
			for _, pc := range u.FC.Preserves {
				for _, m := range e.rawModMaps(pc) {
					cur, old := e.hget(out, m), e.hget(fr.entry, m)
					if cur == old {
						continue
					}
					q := e.sc.freshName("q.r")
					e.sc.oblig(out.reach, fmt.Sprintf("(forall ((%s Int)) (=> %s (= (select %s %s) (select %s %s))))", q, e.existedAtEntry(q, a0), cur, q, old, q),
						fmt.Sprintf("%s#preserves.%s", u.Name, m), "frame", "preserves: "+m+" is unchanged for every object that existed at entry", "")
				}
			}
		}
	}
	return e
}

// checkFrame: every heap map that changed must be covered by the modifies clause
// (for objects that existed at entry).
func (e *Exec) checkFrame(fr *Frame, env *SpecEnv, fc *FuncContract, out *State) {
	var names []string
	for k := range out.heap {
		names = append(names, k)
	}
	sort.Strings(names)
	for _, h := range names {
		f, ok := e.frameFormula(fr, out, h)
		if !ok {
			continue
		}
		e.sc.oblig(out.reach, f, fmt.Sprintf("%s#frame.%s", e.unit, h), "frame", "frame: "+h+" changes only where the modifies clause allows", "")
	}
}

func (e *Exec) frameTargets(fr *Frame) map[string][]modTarget {
	if fr.frameT != nil {
		return fr.frameT
	}
	fr.frameT = map[string][]modTarget{}
	if fr.fc == nil {
		return fr.frameT
	}
	preEnv := &SpecEnv{e: e, fr: fr, st: fr.entry, old: fr.entry, vars: fr.params, oldVars: fr.params}
	targets, _ := e.resolveModifies(preEnv, fr.fc)
	for _, t := range targets {
		fr.frameT[t.heap] = append(fr.frameT[t.heap], t)
	}
	return fr.frameT
}

// frameFormula: "heap map h differs from its entry value only where the modifies clause allows,
// for objects that existed at entry". ok=false if there is nothing to state.
func (e *Exec) frameFormula(fr *Frame, st *State, h string) (string, bool) {
	// code executed in place (closures, tiny helpers) is bound by the frame of the function it runs in
	for fr.outer != nil {
		fr = fr.outer
	}
	if fr.fc == nil || fr.fc.ModAll || fr.fc.Flags["noframe"] != "" || fr.entry == nil {
		return "", false
	}
	if h == "G_alloc" || h == "G_clock" || h == "GU_broadcasts" || h == "GU_dbputs" || h == "GD_writable" || strings.HasPrefix(h, "G_visited") || strings.HasPrefix(h, "GS_") {
		return "", false
	}
	cur := e.hget(st, h)
	old := e.hget(fr.entry, h)
	if cur == old {
		return "", false
	}
	ts := e.frameTargets(fr)[h]
	for _, t := range ts {
		if t.ref == "" {
			return "", false
		}
	}
	srt := e.heapSort[h]
	if !strings.HasPrefix(srt, "(Array Int ") {
		// scalars, and maps not indexed by references (the ghost database): unchanged as a whole
		return eq(cur, old), true
	}
	a0 := e.hget(fr.entry, "G_alloc")
	e.sc.declFun("root", []string{"Int"}, "Int")
	q := e.sc.freshName("q.r")
	var excl []string
	for _, t := range ts {
		excl = append(excl, fmt.Sprintf("(not (= %s %s))", q, t.ref))
	}
	existed := e.existedAtEntry(q, a0)
	// ghost maps keyed by values (connection ids, arbitrary ghost keys) have no notion of "new object";
	// the ghost state of a bytes.Buffer (GB_) is keyed by the buffer object and follows the object rule
	if strings.HasPrefix(h, "G_") || strings.HasPrefix(h, "GU_") || strings.HasPrefix(h, "HP_") {
		existed = "true"
	}
	body := implies(and(append([]string{existed}, excl...)...), eq(sel(cur, q), sel(old, q)))
	f := fmt.Sprintf("(forall ((%s Int)) (! %s :pattern ((select %s %s))))", q, body, cur, q)
	for _, t := range ts {
		if t.lo != "" {
			j := e.sc.freshName("q.j")
			f = and(f, fmt.Sprintf("(forall ((%s Int)) (! (=> (or (< %s %s) (>= %s %s)) (= (select (select %s %s) %s) (select (select %s %s) %s))) :pattern ((select (select %s %s) %s))))", j, j, t.lo, j, t.hi, cur, t.ref, j, old, t.ref, j, cur, t.ref, j))
		}
	}
	return f, true
}

// existedAtEntry: reference q denotes an object that existed when the function was entered.
func (e *Exec) existedAtEntry(q, a0 string) string {
	// positive refs are allocation numbers; negative refs are embedded sub-objects / globals whose
	// owner is given by root()
	e.sc.axiom("root_pos", "(forall ((r Int)) (! (=> (>= r 0) (= (root r) r)) :pattern ((root r))))")
	return fmt.Sprintf("(<= (root %s) %s)", q, a0)
}

// refineRecvType: the interface type the refined contract's receiver has.
func (e *Exec) refineRecvType(u *Unit) types.Type {
	if u.FC != nil && u.FC.fnRecvT != nil {
		return u.FC.fnRecvT
	}
	return types.NewInterfaceType(nil, nil)
}
