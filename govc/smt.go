package main

// SMT-LIB script construction: sorts for Go types, on-demand declarations,
// ordered script items (definitions, assumptions, obligations).

import (
	"fmt"
	"go/types"
	"math/big"
	"sort"
	"strings"
)

type ItemKind int

const (
	ItDecl ItemKind = iota // raw declaration text
	ItAssume
	ItOblig
	ItCover // reachability (vacuity) query: expected sat
)

type Item struct {
	Kind  ItemKind
	Text  string // declaration text or formula
	Guard string // reach condition for obligations/assumptions
	Name  string // obligation name
	Msg   string // human readable description (position, clause text)
	Pos   string
	Class string // safety | pre | post | inv | frame | lock | assert
}

// Script is the ordered SMT script for one verification unit (function or lemma).
type Script struct {
	Unit         string
	sorts        []string // sort/datatype declarations (prefix)
	funs         []string // uninterpreted function declarations & axioms (prefix)
	declared     map[string]bool
	Items        []Item
	fresh        int
	typeTags     map[string]int
	strLits      map[string]string
	world        *World
	used         map[string]bool // assumed library models / axioms used
	uncontracted map[string]bool
}

func newScript(w *World, unit string) *Script {
	s := &Script{Unit: unit, declared: map[string]bool{"root": true, "ax:root_pos": true}, typeTags: map[string]int{}, strLits: map[string]string{}, world: w, used: map[string]bool{}, uncontracted: map[string]bool{}}
	s.sorts = append(s.sorts,
		"(declare-sort Str 0)",
		"(declare-datatypes ((Slice 0)) (((mk_slice (s_arr Int) (s_off Int) (s_len Int) (s_cap Int)))))",
		"(declare-datatypes ((Iface 0)) (((mk_iface (i_typ Int) (i_val Int)))))",
	)
	s.funs = append(s.funs,
		"(define-fun nil_slice () Slice (mk_slice 0 0 0 0))",
		"(define-fun nil_iface () Iface (mk_iface 0 0))",
		"(declare-fun root (Int) Int)",
		"(assert (forall ((r Int)) (! (=> (>= r 0) (= (root r) r)) :pattern ((root r)))))",
		"(declare-fun str_len (Str) Int)",
		"(declare-fun str_cat (Str Str) Str)",
		"(declare-const str_empty Str)",
		"(assert (= (str_len str_empty) 0))",
		"(assert (forall ((s Str)) (! (>= (str_len s) 0) :pattern ((str_len s)))))",
		"(assert (forall ((s Str)) (! (=> (= (str_len s) 0) (= s str_empty)) :pattern ((str_len s)))))",
		"(assert (forall ((a Str) (b Str)) (! (= (str_len (str_cat a b)) (+ (str_len a) (str_len b))) :pattern ((str_cat a b)))))",
		"(assert (forall ((a Str)) (! (= (str_cat a str_empty) a) :pattern ((str_cat a str_empty)))))",
		"(assert (forall ((a Str)) (! (= (str_cat str_empty a) a) :pattern ((str_cat str_empty a)))))",
	)
	s.strLits[""] = "str_empty"
	return s
}

func (s *Script) freshName(prefix string) string {
	s.fresh++
	return fmt.Sprintf("%s!%d", sanitize(prefix), s.fresh)
}

func sanitize(x string) string {
	var b strings.Builder
	for _, c := range x {
		switch {
		case c >= 'a' && c <= 'z', c >= 'A' && c <= 'Z', c >= '0' && c <= '9', c == '_', c == '.', c == '$', c == '!', c == '@':
			b.WriteRune(c)
		default:
			b.WriteByte('_')
		}
	}
	return b.String()
}

func (s *Script) declConst(name, sort string) string {
	if !s.declared[name] {
		s.declared[name] = true
		s.Items = append(s.Items, Item{Kind: ItDecl, Text: fmt.Sprintf("(declare-const %s %s)", name, sort)})
	}
	return name
}

// declGlobal declares in the prefix (visible to every item regardless of order).
func (s *Script) declGlobalConst(name, sort string) string {
	if !s.declared[name] {
		s.declared[name] = true
		s.funs = append(s.funs, fmt.Sprintf("(declare-const %s %s)", name, sort))
	}
	return name
}

func (s *Script) declFun(name string, args []string, ret string) string {
	if !s.declared[name] {
		s.declared[name] = true
		s.funs = append(s.funs, fmt.Sprintf("(declare-fun %s (%s) %s)", name, strings.Join(args, " "), ret))
	}
	return name
}

func (s *Script) axiom(key, text string) {
	if !s.declared["ax:"+key] {
		s.declared["ax:"+key] = true
		s.funs = append(s.funs, "(assert "+text+")")
	}
}

func (s *Script) define(name, sort, term string) string {
	s.Items = append(s.Items, Item{Kind: ItDecl, Text: fmt.Sprintf("(define-fun %s () %s %s)", name, sort, term)})
	s.declared[name] = true
	return name
}

func (s *Script) freshConst(prefix, sort string) string {
	n := s.freshName(prefix)
	return s.declConst(n, sort)
}

func (s *Script) assume(guard, f string) {
	if f == "true" {
		return
	}
	s.Items = append(s.Items, Item{Kind: ItAssume, Guard: guard, Text: f})
}

func (s *Script) oblig(guard, f, name, class, msg, pos string) {
	s.Items = append(s.Items, Item{Kind: ItOblig, Guard: guard, Text: f, Name: name, Class: class, Msg: msg, Pos: pos})
}

func (s *Script) cover(guard, name, msg string) {
	s.Items = append(s.Items, Item{Kind: ItCover, Guard: guard, Text: "true", Name: name, Msg: msg})
}

func (s *Script) typeTag(t types.Type) string {
	key := types.TypeString(t, nil)
	if n, ok := s.typeTags[key]; ok {
		return fmt.Sprint(n)
	}
	n := len(s.typeTags) + 1
	s.typeTags[key] = n
	return fmt.Sprint(n)
}

func (s *Script) strLit(v string) string {
	if n, ok := s.strLits[v]; ok {
		return n
	}
	n := fmt.Sprintf("strlit!%d", len(s.strLits))
	s.strLits[v] = n
	s.funs = append(s.funs, fmt.Sprintf("(declare-const %s Str) ; %q", n, v))
	s.funs = append(s.funs, fmt.Sprintf("(assert (= (str_len %s) %d))", n, len(v)))
	// distinctness is emitted at print time (needs all literals)
	return n
}

// ---------- sorts ----------

func (s *Script) isRepoPkg(p *types.Package) bool {
	return p != nil && strings.HasPrefix(p.Path(), "github.com/cbeuw/Cloak")
}

func isTimeTime(t types.Type) bool {
	if n, ok := t.(*types.Named); ok && n.Obj().Pkg() != nil {
		return n.Obj().Pkg().Path() == "time" && n.Obj().Name() == "Time"
	}
	return false
}

func structName(t types.Type) string {
	switch tt := t.(type) {
	case *types.Named:
		if tt.Obj().Pkg() != nil {
			return sanitize(tt.Obj().Pkg().Name() + "." + tt.Obj().Name())
		}
		return sanitize(tt.Obj().Name())
	case *types.Alias:
		return structName(types.Unalias(tt))
	}
	return sanitize("anon." + types.TypeString(t, func(p *types.Package) string { return p.Name() }))
}

// opaqueStruct reports whether values of this struct type are modelled as an uninterpreted sort.
func (s *Script) opaqueStruct(t types.Type) bool {
	if n, ok := types.Unalias(t).(*types.Named); ok {
		if n.Obj().Pkg() != nil && !s.isRepoPkg(n.Obj().Pkg()) {
			return true
		}
	}
	return false
}

func (s *Script) sortOf(t types.Type) string {
	t = types.Unalias(t)
	if isTimeTime(t) {
		return "Int"
	}
	switch u := t.Underlying().(type) {
	case *types.Basic:
		switch {
		case u.Info()&types.IsBoolean != 0:
			return "Bool"
		case u.Info()&types.IsInteger != 0:
			return "Int"
		case u.Info()&types.IsString != 0:
			return "Str"
		case u.Info()&types.IsFloat != 0:
			return "Real"
		case u.Kind() == types.UnsafePointer:
			return "Int"
		case u.Kind() == types.UntypedNil:
			return "Int"
		}
		return "Int"
	case *types.Pointer, *types.Map, *types.Chan, *types.Signature:
		return "Int"
	case *types.Slice:
		return "Slice"
	case *types.Interface:
		return "Iface"
	case *types.Array:
		return "(Array Int " + s.sortOf(u.Elem()) + ")"
	case *types.Struct:
		if s.opaqueStruct(t) {
			nm := "O_" + structName(t)
			if !s.declared["sort:"+nm] {
				s.declared["sort:"+nm] = true
				s.sorts = append(s.sorts, fmt.Sprintf("(declare-sort %s 0)", nm))
			}
			return nm
		}
		nm := "S_" + structName(t)
		if !s.declared["sort:"+nm] {
			s.declared["sort:"+nm] = true
			var fs []string
			for i := 0; i < u.NumFields(); i++ {
				fs = append(fs, fmt.Sprintf("(%s %s)", s.accessor(t, i), s.sortOf(u.Field(i).Type())))
			}
			if len(fs) == 0 {
				s.sorts = append(s.sorts, fmt.Sprintf("(declare-datatypes ((%s 0)) (((mk_%s))))", nm, nm))
			} else {
				s.sorts = append(s.sorts, fmt.Sprintf("(declare-datatypes ((%s 0)) (((mk_%s %s))))", nm, nm, strings.Join(fs, " ")))
			}
		}
		return nm
	case *types.Tuple:
		return "Int"
	}
	return "Int"
}

func (s *Script) accessor(structT types.Type, i int) string {
	u := structT.Underlying().(*types.Struct)
	return "a_" + structName(structT) + "." + sanitize(u.Field(i).Name())
}

func sortTag(sort string) string {
	r := strings.NewReplacer("(Array ", "A", ")", "", " ", "_", "(", "")
	return r.Replace(sort)
}

func (s *Script) zeroOf(t types.Type) string {
	t = types.Unalias(t)
	if isTimeTime(t) {
		return "time_zero"
	}
	switch u := t.Underlying().(type) {
	case *types.Basic:
		switch {
		case u.Info()&types.IsBoolean != 0:
			return "false"
		case u.Info()&types.IsString != 0:
			return "str_empty"
		case u.Info()&types.IsFloat != 0:
			return "0.0"
		}
		return "0"
	case *types.Slice:
		return "nil_slice"
	case *types.Interface:
		return "nil_iface"
	case *types.Array:
		es := s.sortOf(u.Elem())
		if es == "Int" || es == "Bool" {
			return fmt.Sprintf("((as const %s) %s)", s.sortOf(t), s.zeroOf(u.Elem()))
		}
		// cvc5 only accepts values in constant arrays: axiomatise the all-zero array instead
		n := "zeroarr_" + sortTag(es)
		if !s.declared[n] {
			s.declGlobalConst(n, s.sortOf(t))
			s.axiom(n, fmt.Sprintf("(forall ((i Int)) (! (= (select %s i) %s) :pattern ((select %s i))))", n, s.zeroOf(u.Elem()), n))
		}
		return n
	case *types.Struct:
		if s.opaqueStruct(t) {
			nm := s.sortOf(t)
			return s.declGlobalConst("zero_"+nm, nm)
		}
		nm := s.sortOf(t)
		if u.NumFields() == 0 {
			return "mk_" + nm
		}
		var fs []string
		for i := 0; i < u.NumFields(); i++ {
			fs = append(fs, s.zeroOf(u.Field(i).Type()))
		}
		return fmt.Sprintf("(mk_%s %s)", nm, strings.Join(fs, " "))
	}
	return "0"
}

// intRange returns lo, hi (inclusive) for sized integer types; ok=false for non-integers.
func intRange(t types.Type) (lo, hi *big.Int, ok bool) {
	b, isB := types.Unalias(t).Underlying().(*types.Basic)
	if !isB || b.Info()&types.IsInteger == 0 {
		return nil, nil, false
	}
	bits := 64
	signed := true
	switch b.Kind() {
	case types.Int8:
		bits = 8
	case types.Int16:
		bits = 16
	case types.Int32:
		bits = 32
	case types.Int64, types.Int, types.UntypedInt, types.UntypedRune:
		bits = 64
	case types.Uint8:
		bits, signed = 8, false
	case types.Uint16:
		bits, signed = 16, false
	case types.Uint32:
		bits, signed = 32, false
	case types.Uint64, types.Uint, types.Uintptr:
		bits, signed = 64, false
	}
	one := big.NewInt(1)
	if signed {
		hi = new(big.Int).Sub(new(big.Int).Lsh(one, uint(bits-1)), one)
		lo = new(big.Int).Neg(new(big.Int).Lsh(one, uint(bits-1)))
	} else {
		lo = big.NewInt(0)
		hi = new(big.Int).Sub(new(big.Int).Lsh(one, uint(bits)), one)
	}
	return lo, hi, true
}

func smtInt(v *big.Int) string {
	if v.Sign() < 0 {
		return "(- " + new(big.Int).Neg(v).String() + ")"
	}
	return v.String()
}

// wrapTo wraps an Int term into the range of integer type t (Go's silent wrap-around).
func wrapTo(term string, t types.Type) string {
	lo, hi, ok := intRange(t)
	if !ok {
		return term
	}
	size := new(big.Int).Add(new(big.Int).Sub(hi, lo), big.NewInt(1))
	var w string
	if lo.Sign() == 0 {
		w = fmt.Sprintf("(mod wv %s)", size)
	} else {
		w = fmt.Sprintf("(+ (mod (- wv %s) %s) %s)", smtInt(lo), size, smtInt(lo))
	}
	return fmt.Sprintf("(let ((wv %s)) (ite (and (<= %s wv) (<= wv %s)) wv %s))", term, smtInt(lo), smtInt(hi), w)
}

// rangeFact gives the type invariant of a value of type t (as a formula over term), or "true".
func (s *Script) rangeFact(term string, t types.Type) string {
	t = types.Unalias(t)
	if isTimeTime(t) {
		return "true"
	}
	switch u := t.Underlying().(type) {
	case *types.Basic:
		if lo, hi, ok := intRange(t); ok {
			return fmt.Sprintf("(and (<= %s %s) (<= %s %s))", smtInt(lo), term, term, smtInt(hi))
		}
	case *types.Slice:
		return fmt.Sprintf("(and (<= 0 (s_off %s)) (<= 0 (s_len %s)) (<= (s_len %s) (s_cap %s)) (<= (s_cap %s) 140737488355328) (<= (s_off %s) 140737488355328) (=> (= (s_arr %s) 0) (= (s_cap %s) 0)))", term, term, term, term, term, term, term, term)
	case *types.Struct:
		if s.opaqueStruct(t) {
			return "true"
		}
		var fs []string
		for i := 0; i < u.NumFields(); i++ {
			f := s.rangeFact(fmt.Sprintf("(%s %s)", s.accessor(t, i), term), u.Field(i).Type())
			if f != "true" {
				fs = append(fs, f)
			}
		}
		if len(fs) == 0 {
			return "true"
		}
		return "(and " + strings.Join(fs, " ") + ")"
	}
	return "true"
}

// ---------- printing ----------

func (s *Script) prefix() string {
	var b strings.Builder
	b.WriteString("(set-option :produce-models true)\n(set-logic ALL)\n")
	b.WriteString("(declare-const time_zero Int)\n")
	for _, d := range s.sorts {
		b.WriteString(d + "\n")
	}
	for _, d := range s.funs {
		b.WriteString(d + "\n")
	}
	// distinct string literals
	if len(s.strLits) > 1 {
		var names []string
		for _, n := range s.strLits {
			names = append(names, n)
		}
		sort.Strings(names)
		b.WriteString("(assert (distinct " + strings.Join(names, " ") + "))\n")
	}
	return b.String()
}

func and(xs ...string) string {
	var ys []string
	for _, x := range xs {
		if x == "true" || x == "" {
			continue
		}
		if x == "false" {
			return "false"
		}
		ys = append(ys, x)
	}
	switch len(ys) {
	case 0:
		return "true"
	case 1:
		return ys[0]
	}
	return "(and " + strings.Join(ys, " ") + ")"
}

func or(xs ...string) string {
	var ys []string
	for _, x := range xs {
		if x == "false" || x == "" {
			continue
		}
		if x == "true" {
			return "true"
		}
		ys = append(ys, x)
	}
	switch len(ys) {
	case 0:
		return "false"
	case 1:
		return ys[0]
	}
	return "(or " + strings.Join(ys, " ") + ")"
}

func not(x string) string {
	if x == "true" {
		return "false"
	}
	if x == "false" {
		return "true"
	}
	return "(not " + x + ")"
}

func implies(a, b string) string {
	if a == "true" {
		return b
	}
	if b == "true" {
		return "true"
	}
	return "(=> " + a + " " + b + ")"
}

func ite(c, a, b string) string {
	if c == "true" {
		return a
	}
	if c == "false" {
		return b
	}
	if a == b {
		return a
	}
	return "(ite " + c + " " + a + " " + b + ")"
}

func sel(m, i string) string    { return "(select " + m + " " + i + ")" }
func sto(m, i, v string) string { return "(store " + m + " " + i + " " + v + ")" }
func eq(a, b string) string {
	if a == b {
		return "true"
	}
	if isNumLit(a) && isNumLit(b) {
		return "false"
	}
	return "(= " + a + " " + b + ")"
}

func isNumLit(s string) bool {
	if s == "" {
		return false
	}
	for _, c := range s {
		if c < '0' || c > '9' {
			return false
		}
	}
	return true
}
func app(f string, args ...string) string {
	if len(args) == 0 {
		return f
	}
	return "(" + f + " " + strings.Join(args, " ") + ")"
}
