package main

// Concurrency discipline: held-lock set, guarded-by, lock order, monitor
// invariants, shared (atomic) cells, sync.Pool invariants.

import (
	"fmt"
	"go/token"
	"go/types"
	"sort"
	"strings"

	"golang.org/x/tools/go/packages"
	"golang.org/x/tools/go/ssa"
)

type lockClass struct {
	Name   string // e.g. multiplex.Stream.writingM
	Rank   int    // position in the declared order (0 = undeclared)
	Fields []guardedField
	Invs   []*Clause
	Pkg    *Pkg
	Struct types.Type
}

type guardedField struct {
	Struct types.Type
	Field  int
	Elems  bool // elems(T.f): the contents of the slice stored in the field are guarded too
	Buffer bool // buffer(T.f): the ghost state of the *bytes.Buffer stored in the field
	MapOf  bool // mapof(T.f): the contents of the Go map stored in the field
}

type Discipline struct {
	classes  map[string]*lockClass
	guardOf  map[string]*lockClass // field map name -> lock class
	guardEmb map[string]*lockClass // emb function name of a guarded by-value struct field -> lock class
	shared   map[string]string     // field map name -> "monotone" | "any"
	poolInvs map[string][]*Clause  // pool field path (pkg.Struct.field) -> invariants over (x, self)
}

func (w *World) discipline() *Discipline {
	if w.disc != nil {
		return w.disc
	}
	d := &Discipline{classes: map[string]*lockClass{}, guardOf: map[string]*lockClass{}, guardEmb: map[string]*lockClass{}, shared: map[string]string{}, poolInvs: map[string][]*Clause{}}
	w.disc = d
	rank := 0
	var pkgs []*Pkg
	for _, p := range w.Pkgs {
		pkgs = append(pkgs, p)
	}
	sort.Slice(pkgs, func(i, j int) bool { return pkgs[i].Path < pkgs[j].Path })
	// One global order over the lock classes of all packages: the locks of an importing package rank
	// below (are taken before) those of the packages it imports - a caller may hold its own lock while
	// calling down (server: sessionsM around (*Session).Close), never the other way round, since an
	// imported package cannot call up except through function values, whose contracts say holdsNone().
	reach := map[string]int{}
	for _, p := range pkgs {
		seen := map[string]bool{}
		var walk func(pp *packages.Package)
		walk = func(pp *packages.Package) {
			for path, ip := range pp.Imports {
				if !seen[path] {
					seen[path] = true
					walk(ip)
				}
			}
		}
		walk(p.PP)
		for _, q := range pkgs {
			if seen[q.Path] {
				reach[p.Path]++
			}
		}
	}
	sort.SliceStable(pkgs, func(i, j int) bool { return reach[pkgs[i].Path] > reach[pkgs[j].Path] })
	qualify := func(p *Pkg, s string) string {
		s = strings.TrimSpace(s)
		if strings.Count(s, ".") >= 2 && w.pkgByName(strings.SplitN(s, ".", 2)[0]) != nil {
			return s
		}
		return p.PP.Name + "." + s
	}
	for _, p := range pkgs {
		for _, c := range p.Contracts.LockOrd {
			rank++
			name := qualify(p, c)
			lc := d.class(name)
			lc.Rank = rank
		}
	}
	for _, p := range pkgs {
		for _, g := range p.Contracts.Guarded {
			lc := d.class(qualify(p, g.Lock))
			lc.Pkg = p
			for _, f := range g.Fields {
				gf := guardedField{}
				if strings.HasPrefix(f, "elems(") {
					gf.Elems = true
					f = strings.TrimSuffix(strings.TrimPrefix(f, "elems("), ")")
				}
				if strings.HasPrefix(f, "buffer(") {
					gf.Buffer = true
					f = strings.TrimSuffix(strings.TrimPrefix(f, "buffer("), ")")
				}
				if strings.HasPrefix(f, "mapof(") {
					gf.MapOf = true
					f = strings.TrimSuffix(strings.TrimPrefix(f, "mapof("), ")")
				}
				parts := strings.Split(strings.TrimSpace(f), ".")
				if len(parts) != 2 {
					continue
				}
				tn, ok := p.Types.Scope().Lookup(parts[0]).(*types.TypeName)
				if !ok {
					continue
				}
				u, ok := tn.Type().Underlying().(*types.Struct)
				if !ok {
					continue
				}
				for i := 0; i < u.NumFields(); i++ {
					if u.Field(i).Name() == parts[1] {
						gf.Struct, gf.Field = tn.Type(), i
						lc.Fields = append(lc.Fields, gf)
						lc.Struct = tn.Type()
						d.guardOf["F_"+structName(tn.Type())+"."+sanitize(parts[1])] = lc
						if ft := u.Field(i).Type(); isStructT(ft) {
							if nt, ok := types.Unalias(ft).(*types.Named); !ok || nt.Obj().Pkg() == nil || strings.HasPrefix(nt.Obj().Pkg().Path(), "github.com/cbeuw/Cloak") {
								d.guardEmb["emb_"+structName(tn.Type())+"."+sanitize(parts[1])] = lc
							}
						}
					}
				}
			}
		}
		for _, s := range p.Contracts.Shared {
			parts := strings.Fields(s)
			if len(parts) == 0 {
				continue
			}
			mode := "any"
			if len(parts) > 1 {
				mode = parts[1]
			}
			tf := strings.Split(parts[0], ".")
			if len(tf) != 2 {
				continue
			}
			if tn, ok := p.Types.Scope().Lookup(tf[0]).(*types.TypeName); ok {
				d.shared["F_"+structName(tn.Type())+"."+sanitize(tf[1])] = mode
			}
		}
		for _, li := range p.Contracts.LockInvs {
			lc := d.class(qualify(p, li.Lock))
			lc.Pkg = p
			lc.Invs = append(lc.Invs, li.Clause)
		}
		for _, pi := range p.Contracts.PoolInvs {
			d.poolInvs[qualify(p, pi.Lock)] = append(d.poolInvs[qualify(p, pi.Lock)], pi.Clause)
		}
	}
	return d
}

func (d *Discipline) class(name string) *lockClass {
	if lc, ok := d.classes[name]; ok {
		return lc
	}
	lc := &lockClass{Name: name}
	d.classes[name] = lc
	return lc
}

func (w *World) pkgByName(n string) *Pkg {
	for _, p := range w.Pkgs {
		if p.PP.Name == n {
			return p
		}
	}
	return nil
}

// classOf determines the lock class of a lock value from its location / provenance.
func (e *Exec) classOf(lock Val) string {
	if lock.Loc != nil && lock.Loc.Kind == LField {
		return strings.TrimPrefix(lock.Loc.Map, "F_")
	}
	if lock.Prov != "" {
		return lock.Prov
	}
	return ""
}

// lockEffectsFor: like lockEffects, restricted to the class of the lock when the call names it as a
// field of a struct (x.mu.Lock()).
func (e *Exec) lockEffectsFor(cc *ssa.CallCommon) []string {
	if len(cc.Args) > 0 {
		if fa, ok := cc.Args[0].(*ssa.FieldAddr); ok {
			if pt, ok := fa.X.Type().Underlying().(*types.Pointer); ok {
				if u, ok := pt.Elem().Underlying().(*types.Struct); ok {
					cls := structName(pt.Elem()) + "." + sanitize(u.Field(fa.Field).Name())
					if _, known := e.w.discipline().classes[cls]; known {
						return e.lockEffectsOf(cls)
					}
				}
			}
		}
	}
	return e.lockEffects()
}

func (e *Exec) lockEffects() []string { return e.lockEffectsOf("") }

func (e *Exec) lockEffectsOf(only string) []string {
	// acquiring a lock havocs what it guards
	set := map[string]bool{"G_held": true, e.heapMap("G_heldx", "(Array Int Bool)"): true}
	for cls, lc := range e.w.discipline().classes {
		if only != "" && cls != only {
			continue
		}
		for _, gf := range lc.Fields {
			set[e.fieldMap(gf.Struct, gf.Field)] = true
			if gf.Elems {
				if sl, ok := gf.Struct.Underlying().(*types.Struct).Field(gf.Field).Type().Underlying().(*types.Slice); ok {
					set[e.elemHeap(sl.Elem())] = true
				}
			}
			if gf.Buffer {
				for _, m := range e.bufferMaps() {
					set[m] = true
				}
			}
			if gf.MapOf {
				if mt, ok := gf.Struct.Underlying().(*types.Struct).Field(gf.Field).Type().Underlying().(*types.Map); ok {
					mv, md, mc := e.mapHeaps(mt)
					set[mv], set[md], set[mc] = true, true, true
				}
			}
		}
	}
	var out []string
	for m := range set {
		out = append(out, m)
	}
	sort.Strings(out)
	return out
}

func (e *Exec) lockclassFun() string {
	return e.sc.declFun("lockclass", []string{"Int"}, "Int")
}

func (e *Exec) lockAcquire(fr *Frame, st *State, id string, lock Val, pos token.Pos) {
	d := e.w.discipline()
	held := e.hget(st, "G_held")
	cls := e.classOf(lock)
	if lc, ok := d.classes[cls]; ok && lc.Rank > 0 {
		// the class of a lock is a static fact about where it lives
		e.sc.assume(st.reach, fmt.Sprintf("(= (%s %s) %d)", e.lockclassFun(), id, lc.Rank))
	}
	e.sc.oblig(st.reach, not(sel(held, id)), e.obName("lock-reentry"), "lock", "lock may already be held by this goroutine (self-deadlock): "+cls, e.pos(pos))
	if lc, ok := d.classes[cls]; ok && lc.Rank > 0 {
		f := e.lockclassFun()
		q := e.sc.freshName("q.l")
		e.sc.oblig(st.reach, fmt.Sprintf("(forall ((%s Int)) (=> (select %s %s) (< (%s %s) %d)))", q, held, q, f, q, lc.Rank),
			fmt.Sprintf("%s#lock-order.%s", e.unit, cls)+e.siteSuffix("lock-order."+cls), "lock", "every lock already held must be lower in the declared lock order than "+cls, e.pos(pos))
	} else if cls != "" {
		e.sc.used["lock class "+cls+" has no declared rank (no lock-order obligation)"] = true
	}
	e.hset(st, "G_held", sto(held, id, "true"))
	if lc, ok := d.classes[cls]; ok {
		root := lock.Root
		if lock.Loc != nil && lock.Loc.Kind == LField && root == "" {
			root = lock.Loc.Base
		}
		if root != "" {
			e.havocGuarded(fr, st, lc, root)
			e.monitorInv(fr, st, lc, root, pos, false)
		}
	}
	// snapshot for acq(...): the state as found when the lock was (re)acquired
	snap := st.clone()
	snap.acq = nil
	st.acq = snap
}

func (e *Exec) lockRelease(fr *Frame, st *State, id string, lock Val, pos token.Pos) {
	d := e.w.discipline()
	held := e.hget(st, "G_held")
	cls := e.classOf(lock)
	e.sc.oblig(st.reach, sel(held, id), e.obName("unlock-unheld"), "lock", "unlock of a lock that is not held: "+cls, e.pos(pos))
	if lc, ok := d.classes[cls]; ok {
		root := lock.Root
		if lock.Loc != nil && lock.Loc.Kind == LField && root == "" {
			root = lock.Loc.Base
		}
		if root != "" {
			e.monitorInv(fr, st, lc, root, pos, true)
			// a guarded priority queue must agree with its ghost abstraction when the lock is released
			// (the code may only have changed it through container/heap)
			for _, gf := range lc.Fields {
				u := gf.Struct.Underlying().(*types.Struct)
				ft := u.Field(gf.Field).Type()
				if _, _, isQueue := heapKeyField(ft); isQueue {
					sl := ft.Underlying().(*types.Slice)
					f := e.heapLink(st, root, sel(e.hget(st, e.fieldMap(gf.Struct, gf.Field)), root), sl.Elem())
					e.sc.oblig(st.reach, f, e.obName("queue-repr"), "lock", "the queue "+u.Field(gf.Field).Name()+" agrees with its abstraction (length, smallest key first) when the lock is released", e.pos(pos))
				}
			}
		}
	}
	e.hset(st, "G_held", sto(held, id, "false"))
}

// havocGuarded: on acquisition, the state guarded by the lock is whatever other goroutines left there —
// unless the object was allocated by this very activation (not yet shared).
func (e *Exec) havocGuarded(fr *Frame, st *State, lc *lockClass, root string) {
	entryAlloc := e.hget(fr.entryState(), "G_alloc")
	isFresh := fmt.Sprintf("(> %s %s)", root, entryAlloc)
	for _, gf := range lc.Fields {
		u := gf.Struct.Underlying().(*types.Struct)
		ft := u.Field(gf.Field).Type()
		if e.fieldKindOf(ft) != fkScalar {
			continue
		}
		m := e.fieldMap(gf.Struct, gf.Field)
		h := e.hget(st, m)
		oldv := sel(h, root)
		nv := e.sc.freshConst("guarded."+u.Field(gf.Field).Name(), e.sc.sortOf(ft))
		e.sc.assume(st.reach, e.sc.rangeFact(nv, ft))
		e.sc.assume(st.reach, e.allocFact(st, nv, ft))
		if gf.Buffer {
			// the field holds the same buffer object; its ghost contents change
			e.sc.assume(st.reach, eq(nv, oldv))
			e.havocBuffer(st, oldv, isFresh)
			continue
		}
		e.hset(st, m, sto(h, root, ite(isFresh, oldv, nv)))
		if _, _, isQueue := heapKeyField(ft); isQueue {
			// a priority queue: its ghost abstraction is whatever the other goroutines left there, in
			// agreement with the slice
			e.heapGhost()
			for _, g := range heapGhostNames {
				gh := e.hget(st, g)
				srt := e.heapSort[g]
				inner := srt[len("(Array Int ") : len(srt)-1]
				e.hset(st, g, ite(isFresh, gh, sto(gh, root, e.sc.freshConst("guarded."+g, inner))))
			}
			sl := ft.Underlying().(*types.Slice)
			e.sc.assume(st.reach, implies(not(isFresh), e.heapLink(st, root, sel(e.hget(st, m), root), sl.Elem())))
			// the elements in the queue were allocated before this acquisition
			rf := sel(e.hget(st, "HP_ref"), root)
			qs := e.sc.freshName("q.s")
			e.sc.assume(st.reach, fmt.Sprintf("(forall ((%s Int)) (! (and (<= 0 (select %s %s)) (<= (select %s %s) %s)) :pattern ((select %s %s))))", qs, rf, qs, rf, qs, e.hget(st, "G_alloc"), rf, qs))
		}
		if gf.Elems {
			if sl, ok := ft.Underlying().(*types.Slice); ok {
				em := e.elemHeap(sl.Elem())
				eh := e.hget(st, em)
				cur := sel(e.hget(st, m), root)
				na := e.sc.freshConst("guarded.elems", "(Array Int "+e.sc.sortOf(sl.Elem())+")")
				e.hset(st, em, ite(isFresh, eh, sto(eh, "(s_arr "+cur+")", na)))
			}
		}
		if gf.MapOf {
			// the map object stays the same; its contents are whatever other goroutines left there
			if mt, ok := ft.Underlying().(*types.Map); ok {
				e.sc.assume(st.reach, eq(nv, oldv))
				mv, md, mc := e.mapHeaps(mt)
				for _, hm := range []string{mv, md, mc} {
					hh := e.hget(st, hm)
					srt := e.heapSort[hm]
					inner := srt[len("(Array Int ") : len(srt)-1]
					nc := e.sc.freshConst("guarded.map", inner)
					e.hset(st, hm, ite(isFresh, hh, sto(hh, oldv, nc)))
				}
				e.mapFacts(st, mt, oldv)
			}
		}
	}
}

func (fr *Frame) entryState() *State {
	return fr.entry
}

func (e *Exec) monitorInv(fr *Frame, st *State, lc *lockClass, root string, pos token.Pos, check bool) {
	if len(lc.Invs) == 0 {
		return
	}
	var selfT types.Type
	if lc.Struct != nil {
		selfT = types.NewPointer(lc.Struct)
	}
	env := &SpecEnv{e: e, fr: fr, st: st, old: fr.entry, vars: map[string]Val{"self": {T: root, Typ: selfT}}, oldVars: map[string]Val{"self": {T: root, Typ: selfT}}}
	for _, c := range lc.Invs {
		f := e.specBool(env, c)
		if check {
			e.sc.oblig(st.reach, f, fmt.Sprintf("%s#monitor.%s", e.unit, c.Label)+e.siteSuffix("monitor."+c.Label), "inv", "monitor invariant must hold when the lock is released: "+c.Text, e.pos(pos))
		} else {
			e.sc.assume(st.reach, f)
		}
	}
}

// guardField: a guarded field may only be touched with its lock held (or on an object that this
// activation allocated itself and has not shared yet).
func (e *Exec) guardField(fr *Frame, st *State, fmap, base string, pos token.Pos, write bool) {
	d := e.w.discipline()
	lc, ok := d.guardOf[fmap]
	if !ok {
		// field of a by-value struct that is itself a guarded field of its owner:
		// base = (emb_<Owner>.<field> owner)
		for embName, c := range d.guardEmb {
			if strings.HasPrefix(base, "("+embName+" ") && strings.HasSuffix(base, ")") {
				lc, ok = c, true
				fmap = "F_" + strings.TrimPrefix(embName, "emb_") + "/" + strings.TrimPrefix(fmap, "F_")
				base = base[len(embName)+2 : len(base)-1]
				break
			}
		}
	}
	if !ok || fr.entry == nil {
		return
	}
	if fr.fc != nil && fr.fc.Flags["noguard"] != "" {
		return
	}
	id := e.lockIDFromClass(st, lc, base)
	if id == "" {
		return
	}
	entryAlloc := e.hget(fr.entry, "G_alloc")
	key := "guard." + strings.TrimPrefix(fmap, "F_")
	e.sc.oblig(st.reach, or(sel(e.hget(st, "G_held"), id), fmt.Sprintf("(> %s %s)", base, entryAlloc)),
		fmt.Sprintf("%s#%s", e.unit, key)+e.siteSuffix(key), "lock", fmt.Sprintf("access to %s requires holding %s", strings.TrimPrefix(fmap, "F_"), lc.Name), e.pos(pos))
}

func (e *Exec) fieldMapName(st types.Type, i int) string {
	u := st.Underlying().(*types.Struct)
	return "F_" + structName(st) + "." + sanitize(u.Field(i).Name())
}

// lockIDFromClass computes the lock identity for object base from the class path (pkg.Struct.f1.f2...).
func (e *Exec) lockIDFromClass(st *State, lc *lockClass, base string) string {
	if lc.Struct == nil {
		return ""
	}
	parts := strings.Split(lc.Name, ".")
	if len(parts) < 3 {
		return ""
	}
	path := parts[2:]
	var cur types.Type = lc.Struct
	ref := base
	for i, f := range path {
		u, ok := types.Unalias(cur).Underlying().(*types.Struct)
		if !ok {
			return ""
		}
		idx := -1
		for k := 0; k < u.NumFields(); k++ {
			if u.Field(k).Name() == f {
				idx = k
			}
		}
		if idx < 0 {
			return ""
		}
		ft := u.Field(idx).Type()
		name := "F_" + structName(cur) + "." + sanitize(f)
		last := i == len(path)-1
		if last {
			if nt, ok := types.Unalias(ft).(*types.Named); ok && nt.Obj().Pkg() != nil && nt.Obj().Pkg().Path() == "sync" && (nt.Obj().Name() == "Mutex" || nt.Obj().Name() == "RWMutex") {
				m := e.heapMap(name, "(Array Int "+e.sc.sortOf(ft)+")")
				return e.locAddrTerm(&Loc{Kind: LField, Base: ref, Map: m, Typ: ft})
			}
			m := e.heapMap(name, "(Array Int "+e.sc.sortOf(ft)+")")
			v := sel(e.hget(st, m), ref)
			if _, ok := types.Unalias(ft).Underlying().(*types.Interface); ok {
				return "(i_val " + v + ")"
			}
			return v
		}
		m := e.heapMap(name, "(Array Int "+e.sc.sortOf(ft)+")")
		ref = sel(e.hget(st, m), ref)
		if pt, ok := types.Unalias(ft).Underlying().(*types.Pointer); ok {
			cur = pt.Elem()
		} else {
			cur = ft
		}
	}
	return ""
}

// ---------- shared cells (atomics) ----------

// sharedLoad: the value of an atomically accessed cell as seen by one atomic step. Other goroutines
// may have changed it since our last step unless the object is still private to this activation.
func (e *Exec) sharedLoad(fr *Frame, st *State, l *Loc, t types.Type) Val {
	e.sharedInterfere(fr, st, l)
	v := e.load(st, l)
	n := e.sc.freshName("atomic.cur")
	e.sc.define(n, e.sc.sortOf(t), v)
	return Val{T: n, Typ: t}
}

func (e *Exec) sharedInterfere(fr *Frame, st *State, l *Loc) {
	if l.Kind != LField || fr.entry == nil {
		return
	}
	d := e.w.discipline()
	mode, declared := d.shared[l.Map]
	if !declared {
		e.sc.used["atomic cell "+strings.TrimPrefix(l.Map, "F_")+" is treated as not modified by other goroutines (no shared declaration)"] = true
		return
	}
	entryAlloc := e.hget(fr.entry, "G_alloc")
	cur := e.load(st, l)
	nv := e.sc.freshConst("shared."+strings.TrimPrefix(l.Map, "F_"), e.sc.sortOf(l.Typ))
	e.sc.assume(st.reach, e.sc.rangeFact(nv, l.Typ))
	switch mode {
	case "monotone":
		e.sc.assume(st.reach, fmt.Sprintf("(>= %s %s)", nv, cur))
	case "flag": // 0 -> 1 only
		e.sc.assume(st.reach, fmt.Sprintf("(and (>= %s %s) (<= %s 1))", nv, cur, nv))
	}
	e.store(st, l, ite(fmt.Sprintf("(> %s %s)", l.Base, entryAlloc), cur, nv))
}

// ---------- sync.Pool invariants ----------

func (e *Exec) poolKey(pool Val) string {
	if pool.Loc != nil && pool.Loc.Kind == LField {
		return strings.TrimPrefix(pool.Loc.Map, "F_")
	}
	return ""
}

func (e *Exec) poolAssume(fr *Frame, st *State, pool Val, x Val) {
	d := e.w.discipline()
	k := e.poolKey(pool)
	invs := d.poolInvs[k]
	if len(invs) == 0 {
		return
	}
	self := Val{T: pool.Loc.Base, Typ: e.poolSelfType(k)}
	env := &SpecEnv{e: e, fr: fr, st: st, old: st, vars: map[string]Val{"x": x, "self": self}, oldVars: map[string]Val{"x": x, "self": self}}
	for _, c := range invs {
		e.sc.assume(st.reach, e.specBoolA(env, c))
	}
	e.sc.used["sync.Pool invariant for "+k+" (checked at Put and at the pool's New function)"] = true
}

func (e *Exec) poolCheck(fr *Frame, st *State, pool Val, x Val, pos token.Pos) {
	d := e.w.discipline()
	k := e.poolKey(pool)
	invs := d.poolInvs[k]
	if len(invs) == 0 {
		return
	}
	self := Val{T: pool.Loc.Base, Typ: e.poolSelfType(k)}
	env := &SpecEnv{e: e, fr: fr, st: st, old: st, vars: map[string]Val{"x": x, "self": self}, oldVars: map[string]Val{"x": x, "self": self}}
	for _, c := range invs {
		e.sc.oblig(st.reach, e.specBool(env, c), fmt.Sprintf("%s#pool.%s", e.unit, c.Label)+e.siteSuffix("pool."+c.Label), "inv", "value put into the pool must satisfy the pool invariant: "+c.Text, e.pos(pos))
	}
}

func (e *Exec) poolSelfType(k string) types.Type {
	parts := strings.Split(k, ".")
	if len(parts) < 3 {
		return types.Typ[types.Int]
	}
	p := e.w.pkgByName(parts[0])
	if p == nil {
		return types.Typ[types.Int]
	}
	if tn, ok := p.Types.Scope().Lookup(parts[1]).(*types.TypeName); ok {
		return types.NewPointer(tn.Type())
	}
	return types.Typ[types.Int]
}
